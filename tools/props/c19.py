"""C19 - yaw/heading conversions are mutually inverse and range-normalised.

Real code: fusion_engine_client.messages.defs.yaw_to_heading / heading_to_yaw (deg=True and deg=False).
Model:     lean/FeVerif/Model/Angle.lean (exact rationals; the same definitions the theorems of Props/C19.lean are about).

Stage C  every double input is sent to the Lean driver as its 64 bits; the driver converts it to the exact rational, evaluates
         the model and answers with the exact rational result.  |impl - model| is reduced modulo a full turn and must be
         <= 4 ulp(turn) * max(1, |x| / turn).  (Reducing modulo a turn means a result that rounding pushed onto the excluded end
         of the range is *not* a correspondence failure - it is a range violation, reported by stage D.)
         Second tie: the model with every + and - rounded to binary64 (Lean `roundDouble`, ties to even) must return exactly the
         double the real code returns (value equality; the sign of a zero result is not compared).
Call forms (call_forms): every way of stating the same request - unit flag omitted / second positional argument / keyword `deg`,
         spelled True/False, 1/0, np.True_/np.False_, first argument positional or by keyword; input as Python float, Python int,
         numpy scalar of every integer / float dtype that holds the value, 0-d, 1-d, 2-d array, whole arrays, lists where accepted -
         must return the double of the Lean model of that request (Model/Angle.lean `yawToHeadingCall` / `headingToYawCall`:
         degrees by default, radians when the flag is false), and is judged by the property (range, congruence) in the unit the
         call names; the documented signature `(angle, deg=True)` must bind the second positional parameter to the unit flag.
Element orders (array_orders): arrays whose FIRST element lands exactly on an end of a range / a wrap point / zero (every multiple
         of an eighth turn within 3 turns, every spelling; yaw = 90 deg gives heading 0, heading = 270 deg gives yaw -180, ...) followed by
         non-integer values, rings of such values in every rotation, one- and two-element arrays; 1-D, strided, column, 2-D, Fortran
         order, 3-D.  The result has the argument's shape and a floating-point dtype, the argument is untouched, and every element
         is the double of the scalar call, satisfies range and congruence, and equals the rounded Lean model.
Held results (held_results): histories of calls (both functions, both units, equal and different shapes, integer-dtype inputs, scalar
         calls in between, results fed back in as arguments).  Every array ever returned is looked at again after every later
         call and must hold exactly what it held when it was returned; then the caller overwrites its arguments and each result in
         turn: no other result may change (no result shares memory with another result or with an argument).
Array sizes (array_sizes): lengths 2^k - 1, 2^k, 2^k + 1 for every k up to 17 (thorough: 20) and m * b + {-1, 0, 1, 2} for the block sizes
         1000, 1024, 4096, 8192, 10000, 32768, 65536, 100000; filled from a pool of distinct values, with values whose plain difference
         lies outside both ranges at the first and the last position and on both sides of every multiple of 256 and of 1000; 1-D plus one
         other layout (strided / reversed view, column, row, 2-D, Fortran order).  The whole result is compared bitwise with the scalar
         results; differing elements, the first and the last are judged one by one (scalar, range, congruence, rounded model).
Fresh interpreters (fresh_processes): every (function, unit, argument kind, magnitude class |x| <= 1e-3, 1, pi, 2 pi, 90, 180, 360, 1080,
         1e6, all zeros) as the FIRST conversion of a process, followed by the other functions / units in a random order - each scenario
         in a fork of a freshly imported interpreter, and a selection in interpreters started for that scenario alone (logging enabled,
         as in a user's process).  An exception is a violation; every returned element is judged like any other.
Stage D  the property statement itself on the real functions, judged in exact rational arithmetic: range, congruence to a quarter
         turn minus the input, mutual inverse up to a turn, radian variant == degree variant, scalar == array element (bitwise).
"""
import inspect
import json
import math
import struct
from fractions import Fraction

import numpy as np

import fv

MODULES = ['FeVerif.Props.C19']

# pi to 60 digits: the radian oracle is stated with the real pi, not with the double math.pi
PI = Fraction('3.14159265358979323846264338327950288419716939937510582097494')


class Unit:
    def __init__(self, name, deg, half_turn, ulp_turn, true_half_turn):
        self.name = name
        self.deg = deg
        self.H = half_turn                          # the double the code uses
        self.Hbits = bits(half_turn)
        self.Tm = 2 * Fraction(half_turn)           # the period the code (and the model) reduces by
        self.T = 2 * true_half_turn                 # the period of the property statement
        self.Q = true_half_turn / 2                 # quarter turn: 90 degrees
        self.ulp = Fraction(ulp_turn)               # spacing of doubles just below a full turn

    def tol(self, x):
        return 4 * self.ulp * max(Fraction(1), abs(Fraction(x)) / self.T)


def bits(x):
    return struct.pack('>d', float(x)).hex()


def from_bits(h):
    return struct.unpack('>d', bytes.fromhex(h))[0]


DEG = Unit('deg', True, 180.0, 2.0 ** -44, Fraction(180))
RAD = Unit('rad', False, math.pi, 2.0 ** -50, PI)
assert np.spacing(np.nextafter(360.0, 0)) == 2.0 ** -44 and np.spacing(np.nextafter(2 * math.pi, 0)) == 2.0 ** -50
UNITS = {'deg': DEG, 'rad': RAD}


def impl():
    from fusion_engine_client.messages import defs
    return defs.yaw_to_heading, defs.heading_to_yaw


def reduce_mod(d, T):
    """d reduced to [-T/2, T/2]."""
    return d - T * round(d / T)


# ---- inputs ---------------------------------------------------------------------------------------------------------------------
def neighbours(b, n=3):
    out = [b]
    lo = hi = b
    for _ in range(n):
        lo = float(np.nextafter(lo, -np.inf))
        hi = float(np.nextafter(hi, np.inf))
        out += [lo, hi]
    return out


TINY = [0.0, -0.0, 5e-324, -5e-324, 1e-300, -1e-300, 1e-17, -1e-17, 2.2250738585072014e-308, 1e-14, -1e-14, 3e-14, -3e-14]


def inputs(ctx, unit, n_rand, step_div):
    """list of (category, float).  Degrees: the listed values; radians: the same set scaled, plus multiples of pi/4 as doubles."""
    rng = ctx.rng
    scale = 1.0 if unit.deg else math.pi / 180.0
    out = []
    lim = 1080
    for i in range(-lim * step_div, lim * step_div + 1):
        out.append(('grid', (i / step_div) * scale))
    for k in range(-lim // 45, lim // 45 + 1):
        base = 45.0 * k if unit.deg else k * (math.pi / 4.0)
        for v in neighbours(base):
            out.append(('mult45_nbr', v))
        for t in TINY[2:]:
            out.append(('mult45_tiny', base + t))
        if not unit.deg:
            for v in neighbours(float(np.deg2rad(45.0 * k)), 1):
                out.append(('mult45_nbr', v))
    for t in TINY:
        out.append(('tiny', t))
    for _ in range(n_rand):
        out.append(('rand_1080', rng.uniform(-1080.0, 1080.0) * scale))
    for _ in range(n_rand):
        out.append(('rand_1e6', rng.uniform(-1e6, 1e6)))
    for _ in range(n_rand // 2):
        out.append(('rand_log', math.copysign(10.0 ** rng.uniform(-12, 6), rng.random() - 0.5)))
    for _ in range(n_rand // 4):
        out.append(('rand_int', float(rng.randrange(-1000000, 1000001))))
    # wrap points seen from far away: k full turns plus a quarter, and its neighbours
    for _ in range(n_rand // 8):
        k = rng.randrange(-2500, 2500)
        base = (90.0 + 360.0 * k + rng.choice([0.0, 180.0])) if unit.deg else (math.pi / 2.0 + 2.0 * math.pi * k)
        for v in neighbours(base, 1):
            out.append(('far_wrap_nbr', v))
    return out


# ---- one unit, a batch of inputs ------------------------------------------------------------------------------------------------
def call(ctx, f, name, arg, unit, replay):
    try:
        return f(arg, deg=unit.deg)
    except Exception as e:  # noqa
        ctx.violation('C19/%s-raised' % name, '%s(%r, deg=%s) raised %s: %s' % (name, arg, unit.deg, type(e).__name__, e), replay)
        return None


def run_unit(ctx, unit, cases, with_id=True):
    y2h, h2y = impl()
    xs = [x for _, x in cases]
    lines = []
    for x in xs:
        b = bits(x)
        lines.append('angle y2h %s %s' % (unit.Hbits, b))
        lines.append('angle h2y %s %s' % (unit.Hbits, b))
    base_r = len(lines)
    for x in xs:
        b = bits(x)
        lines.append('angle y2h_r %s %s' % (unit.Hbits, b))
        lines.append('angle h2y_r %s %s' % (unit.Hbits, b))
    base_id = len(lines)
    nid = 0
    if with_id:
        for x in xs[::7]:
            lines.append('angle id %s %s' % (unit.Hbits, bits(x)))
            nid += 1
    # the array form of the model (List.map) on one batch
    arr_n = min(len(xs), 64)
    lines.append('anglearr y2h %s %s' % (unit.Hbits, ','.join(bits(x) for x in xs[:arr_n])))
    lines.append('anglearr h2y %s %s' % (unit.Hbits, ','.join(bits(x) for x in xs[:arr_n])))
    outs = ctx.driver(lines)

    def frac(s, what):
        try:
            n, d = s.split('/')
            return Fraction(int(n), int(d))
        except Exception:
            raise fv.InfraError('driver answered %r to %s' % (s[:80], what))

    model = [(frac(outs[2 * i], lines[2 * i]), frac(outs[2 * i + 1], lines[2 * i + 1]),
              frac(outs[base_r + 2 * i], lines[base_r + 2 * i]), frac(outs[base_r + 2 * i + 1], lines[base_r + 2 * i + 1]))
             for i in range(len(xs))]
    for j, x in enumerate(xs[::7] if with_id else []):
        if frac(outs[base_id + j], 'id') != Fraction(x):
            ctx.disagree('driver bits->rational conversion wrong for %r' % x, {'unit': unit.name, 'x_bits': bits(x)})
    for k, fn in enumerate(('y2h', 'h2y')):
        got = [frac(s, 'anglearr') for s in outs[base_id + nid + k].split(',')]
        if got != [m[k] for m in model[:arr_n]]:
            ctx.disagree('model array form != map of scalar form (%s)' % fn, {'unit': unit.name})

    # ---- the real code: arrays first (1-D, 2-D, strided), then every scalar
    a = np.array(xs, dtype=np.float64)
    rep_arr = {'unit': unit.name, 'x_bits': [bits(x) for x in xs[:8]], 'note': 'array call'}
    ah = call(ctx, y2h, 'yaw_to_heading', a, unit, rep_arr)
    ay = call(ctx, h2y, 'heading_to_yaw', a, unit, rep_arr)
    if ah is None or ay is None:
        return
    for name, f, ref in (('yaw_to_heading', y2h, ah), ('heading_to_yaw', h2y, ay)):
        if not (isinstance(ref, np.ndarray) and ref.shape == a.shape and ref.dtype == np.float64):
            ctx.violation('C19/array-shape', '%s(array of %d float64) returned %s' % (name, len(a), type(ref).__name__), rep_arr)
            return
        n2 = len(a) // 2 * 2
        r2 = call(ctx, f, name, a[:n2].reshape(2, -1), unit, rep_arr)
        big = np.zeros(2 * len(a))
        big[::2] = a
        r3 = call(ctx, f, name, big[::2], unit, rep_arr)
        if r2 is None or r3 is None:
            return
        if r2.shape != (2, n2 // 2) or r2.reshape(-1).tobytes() != ref[:n2].tobytes() or r3.tobytes() != ref.tobytes():
            ctx.violation('C19/array-layout-dependent', '%s gives different elements for a 2-D / strided view of the same values'
                          % name, rep_arr)

    # assumption 'np.fmod is the exact remainder with the sign of the dividend', tested on every 3rd input
    period = 2.0 * unit.H
    fm = np.fmod(a[::3], period)
    for x, r in zip(xs[::3], fm):
        fx = Fraction(x)
        q = fx / unit.Tm
        if Fraction(float(r)) != fx - unit.Tm * (math.floor(q) if q >= 0 else math.ceil(q)):
            ctx.disagree('np.fmod(%r, %r) = %r is not the exact truncated remainder' % (x, period, float(r)),
                         {'unit': unit.name, 'x_bits': bits(x)})
    for i, (cat, x) in enumerate(cases):
        judge(ctx, unit, cat, x, model[i], ah[i], ay[i], y2h, h2y)


def judge(ctx, unit, cat, x, model, arr_h, arr_y, y2h, h2y):
    replay = {'unit': unit.name, 'x_bits': bits(x), 'x': repr(x), 'category': cat}
    ctx.count('%s_%s' % (unit.name, cat))
    h = call(ctx, y2h, 'yaw_to_heading', x, unit, replay)
    y = call(ctx, h2y, 'heading_to_yaw', x, unit, replay)
    if h is None or y is None:
        return
    fx = Fraction(x)
    tol = unit.tol(x)
    wrapped = False
    for name, sig, r, arr, f, lo, mdl, mdl_r in (('yaw_to_heading', 'heading', h, arr_h, y2h, Fraction(0), model[0], model[2]),
                                                 ('heading_to_yaw', 'yaw', y, arr_y, h2y, -unit.T / 2, model[1], model[3])):
        r = float(r)
        if not math.isfinite(r):
            ctx.violation('C19/%s-not-finite' % sig, '%s(%r, deg=%s) = %r' % (name, x, unit.deg, r), replay)
            continue
        # scalars and arrays: python float, numpy scalar and array element must be the same double
        rs = call(ctx, f, name, np.float64(x), unit, replay)
        if rs is None:
            continue
        if not (bits(r) == bits(rs) == bits(arr)):
            ctx.violation('C19/%s-scalar-array-differ' % sig, '%s(%r, deg=%s): float arg -> %r, np.float64 arg -> %r, array element '
                          '-> %r' % (name, x, unit.deg, r, float(rs), float(arr)), replay)
        fr = Fraction(r)
        # range, in the reals: [lo, lo + T)
        if not (lo <= fr < lo + unit.T):
            ctx.violation('C19/%s-out-of-range' % sig, '%s(%r, deg=%s) = %r is outside [%s, %s)'
                          % (name, x, unit.deg, r, float(lo), float(lo + unit.T)), replay)
        # congruence to a quarter turn minus the input
        d = reduce_mod(fr - (unit.Q - fx), unit.T)
        if abs(d) > tol:
            ctx.violation('C19/%s-not-congruent' % sig, '%s(%r, deg=%s) = %r differs from %s - x modulo a turn by %.3e (tolerance %.3e)'
                          % (name, x, unit.deg, r, '90' if unit.deg else 'pi/2', float(d), float(tol)), replay)
        if abs(fr - (unit.Q - fx)) > unit.T / 2:
            wrapped = True      # the result is not the plain difference: at least one full turn was added or removed
        # correspondence with the exact model (period = the double the code uses)
        dm = reduce_mod(fr - mdl, unit.Tm)
        if abs(dm) > tol:
            ctx.disagree('%s(%r, deg=%s) = %r, exact model %.17g, difference modulo a turn %.3e > %.3e'
                         % (name, x, unit.deg, r, float(mdl), float(dm), float(tol)), replay)
        if not (lo <= mdl < lo + unit.Tm):
            ctx.disagree('model result %s outside its proved range' % mdl, replay)
        # the rounded model (every + and - rounded to binary64, ties to even) must give the very same double
        if fr != mdl_r:
            ctx.disagree('%s(%r, deg=%s) = %r but the rounded model gives %.17g (difference %.3e)'
                         % (name, x, unit.deg, r, float(mdl_r), float(fr - mdl_r)), replay)
        ctx.cov['traces_validated_against_impl'] += 1
    # mutually inverse up to a full turn (both orders)
    if math.isfinite(float(h)) and math.isfinite(float(y)):
        for name, inner, outer in (('heading_to_yaw(yaw_to_heading(x))', h, h2y), ('yaw_to_heading(heading_to_yaw(x))', y, y2h)):
            back = call(ctx, outer, name, float(inner), unit, replay)
            if back is None or not math.isfinite(float(back)):
                continue
            d = reduce_mod(Fraction(float(back)) - fx, unit.T)
            if abs(d) > tol + 4 * unit.ulp:
                ctx.violation('C19/not-inverse', '%s = %r for x = %r (deg=%s): differs from x modulo a turn by %.3e'
                              % (name, float(back), x, unit.deg, float(d)), replay)
    # radian variant == degree variant (x taken as degrees, converted with the real pi; the conversion error of the input is exact)
    if unit.deg and math.isfinite(float(h)) and math.isfinite(float(y)):
        xr = float(np.deg2rad(x))
        conv_err = abs(Fraction(xr) - fx * PI / 180)
        bound = RAD.tol(xr) + tol * PI / 180 + conv_err
        for name, f, rdeg in (('yaw_to_heading', y2h, h), ('heading_to_yaw', h2y, y)):
            rr = call(ctx, f, name, xr, RAD, replay)
            if rr is None or not math.isfinite(float(rr)):
                continue
            d = reduce_mod(Fraction(float(rr)) - Fraction(float(rdeg)) * PI / 180, RAD.T)
            if abs(d) > bound:
                ctx.violation('C19/rad-deg-differ', '%s(deg2rad(%r), deg=False) = %r but %s(%r) = %r deg = %.17g rad (difference %.3e)'
                              % (name, x, float(rr), name, x, float(rdeg), float(Fraction(float(rdeg)) * PI / 180), float(d)), replay)
    near = abs(reduce_mod(unit.Q - fx, unit.T / 2)) <= 8 * tol
    ctx.case('%s %s' % (unit.name, bits(x)), nontrivial=wrapped or near)
    # a few literal cases for the evidence: inputs next to a wrap point (where rounding decides the range), 3 per unit
    nsamp = sum(1 for smp in ctx.cov['samples'] if smp['unit'] == unit.name)
    if near and fx != unit.Q and abs(fx) > 1 and nsamp < 3 and cat in ('mult45_nbr', 'far_wrap_nbr'):
        ctx.sample({'unit': unit.name, 'x': repr(x), 'yaw_to_heading': repr(float(h)), 'heading_to_yaw': repr(float(y)),
                    'exact_model_yaw_to_heading': str(model[0])[:80], 'exact_model_heading_to_yaw': str(model[1])[:80],
                    'rounded_model_equal': Fraction(float(h)) == model[2] and Fraction(float(y)) == model[3]})


def misc(ctx):
    """Argument forms other than float / float64 array: Python int, integer array, list-free 0-d array; default deg=True."""
    y2h, h2y = impl()
    for name, f in (('yaw_to_heading', y2h), ('heading_to_yaw', h2y)):
        for v in (0, 90, 300, -270, 450, 1080):
            replay = {'unit': 'deg', 'x_bits': bits(v), 'x': repr(v), 'category': 'python-int'}
            try:
                a, b, c, d = f(v), f(float(v)), f(np.array([v]))[0], f(np.array(float(v)))
            except Exception as e:  # noqa
                ctx.violation('C19/%s-raised' % name, '%s(%r) raised %s' % (name, v, e), replay)
                continue
            if not (bits(a) == bits(b) == bits(c) == bits(d)):
                ctx.violation('C19/int-float-differ', '%s(%r): int %r, float %r, int array %r, 0-d array %r' % (name, v, a, b, c, d), replay)
            if bits(f(float(v), deg=True)) != bits(b):
                ctx.violation('C19/default-unit', '%s: default is not deg=True' % name, replay)
            ctx.count('deg_python_int')


# ---- call forms -----------------------------------------------------------------------------------------------------------------
# (Lean form, does it mean degrees, [(spelling, positional args after the angle, keyword args)])
FORMS = [
    ('omitted', True, [('', (), {})]),
    ('pos1', True, [('True', (True,), {}), ('1', (1,), {}), ('np.True_', (np.True_,), {}), ('np.int64(1)', (np.int64(1),), {})]),
    ('pos0', False, [('False', (False,), {}), ('0', (0,), {}), ('np.False_', (np.False_,), {}), ('np.int64(0)', (np.int64(0),), {})]),
    ('kw1', True, [('deg=True', (), {'deg': True}), ('deg=1', (), {'deg': 1}), ('deg=np.True_', (), {'deg': np.True_}),
                   ('deg=np.bool_(1)', (), {'deg': np.bool_(1)})]),
    ('kw0', False, [('deg=False', (), {'deg': False}), ('deg=0', (), {'deg': 0}), ('deg=np.False_', (), {'deg': np.False_}),
                    ('deg=np.bool_(0)', (), {'deg': np.bool_(0)})]),
]
INT_TYPES = [np.int8, np.int16, np.int32, np.int64, np.uint8, np.uint16, np.uint32, np.uint64]


def check_signature(ctx, name, f):
    """The documented parameters are (angle, deg=True), in that order: the second positional parameter is the unit flag.
    Returns the name of the first parameter (None when the signature cannot be inspected)."""
    try:
        sig = inspect.signature(f)
    except (TypeError, ValueError):
        ctx.notes.append('%s: signature not inspectable; call forms judged by behaviour only' % name)
        return None
    ps = list(sig.parameters.values())
    pos = [p for p in ps if p.kind in (p.POSITIONAL_ONLY, p.POSITIONAL_OR_KEYWORD)]
    replay = {'function': name, 'signature': str(sig), 'category': 'signature'}
    if len(pos) < 2 or pos[1].name != 'deg' or pos[1].kind != pos[1].POSITIONAL_OR_KEYWORD or pos[1].default is pos[1].empty \
            or pos[0].default is not pos[0].empty:
        ctx.violation('C19/signature', '%s%s: the documented parameters are (angle, deg=True) - the second positional parameter must '
                      'be the unit flag `deg` (with a default), so that %s(x, False) is the radian variant; here it is %s'
                      % (name, sig, name, repr(pos[1].name) if len(pos) > 1 else 'missing'), replay)
    for p in ps[2:] if len(pos) >= 2 else []:
        if p.default is p.empty and p.kind not in (p.VAR_POSITIONAL, p.VAR_KEYWORD):
            ctx.violation('C19/signature', '%s%s: parameter %r has no default, %s(angle) and %s(angle, deg) no longer work'
                          % (name, sig, p.name, name, name), replay)
    ctx.count('signature_checked')
    return pos[0].name if pos and pos[0].kind == pos[0].POSITIONAL_OR_KEYWORD else None


def representations(x, deg):
    """[(label, object)] - the ways of passing the one value x.  Narrower float dtypes make NumPy compute in that dtype,
    so they are used only where every intermediate result is exactly representable (degrees, integral |x| <= 1080)."""
    out = [('float', float(x)), ('np.float64', np.float64(x)), ('0-d array', np.array(x)), ('1-d array', np.array([x])),
           ('2-d array', np.array([[x]])), ('list', [x]), ('tuple', (x,)), ('nested list', [[x]])]
    if x == math.floor(x) and abs(x) < 2.0 ** 53:
        i = int(x)
        out += [('int', i), ('int list', [i])]
        for t in INT_TYPES:
            info = np.iinfo(t)
            if info.min <= i <= info.max:
                out += [('np.%s' % t.__name__, t(i)), ('%s array' % t.__name__, np.array([i], dtype=t))]
        if deg and abs(i) <= 1080:
            for t in (np.float32, np.float16):
                out += [('np.%s' % t.__name__, t(i)), ('%s array' % t.__name__, np.array([i], dtype=t)),
                        ('0-d %s array' % t.__name__, np.array(i, dtype=t))]
    return out


def form_values(ctx, n_rand):
    """Angles for the call-form sweep; every form is applied to every value (270.0 is a fine number of radians too)."""
    rng = ctx.rng
    vals = []
    for k in range(-24, 25):
        vals += [45.0 * k, k * (math.pi / 4.0)]
    for b in (90.0, -90.0, 270.0, -270.0, 450.0, 180.0, -180.0, 360.0, math.pi / 2, -math.pi / 2, 3 * math.pi / 2, math.pi, -math.pi,
              2 * math.pi):
        vals += neighbours(b, 1)[1:]
    vals += [0.0, -0.0, 5e-324, -1e-17, 1e-14, 0.1, -0.1, 33.3, -123.456, 1.0, -1.0, 2.0, 100.0, 127.0, -128.0, 128.0, 200.0, 255.0,
             256.0, 32767.0, -32768.0, 65535.0, 1e6, -1e6, 1000000.5, -999999.25, 2147483647.0, 4294967295.0]
    for _ in range(n_rand):
        vals += [rng.uniform(-1080.0, 1080.0), rng.uniform(-20.0, 20.0), float(rng.randrange(-1080, 1081)),
                 float(rng.randrange(-1000000, 1000001))]
    seen, out = set(), []
    for v in vals:
        if bits(v) not in seen:
            seen.add(bits(v))
            out.append(v)
    return out


def show_call(name, label, spelling, kw_first):
    arg = '<%s>' % label
    inner = ', '.join(([('%s=%s' % (kw_first, arg))] if kw_first else [arg]) + ([spelling] if spelling else []))
    return '%s(%s)' % (name, inner)


def call_forms(ctx, values):
    y2h, h2y = impl()
    funcs = (('yaw_to_heading', 'heading', 'y2h', y2h), ('heading_to_yaw', 'yaw', 'h2y', h2y))
    first = {name: check_signature(ctx, name, f) for name, _, _, f in funcs}
    pib = bits(math.pi)
    lines = []
    for x in values:
        for _, _, lf, _ in funcs:
            for form, _, _ in FORMS:
                lines.append('anglecall %s %s %s %s' % (lf, pib, form, bits(x)))
                lines.append('anglecall %s_r %s %s %s' % (lf, pib, form, bits(x)))
    outs = ctx.driver(lines)
    model = {}
    for ln, o in zip(lines, outs):
        try:
            n, d = o.split('/')
            _, lf, _, form, xb = ln.split()
            model[(lf, form, xb)] = Fraction(int(n), int(d))
        except Exception:
            raise fv.InfraError('driver answered %r to %s' % (o[:80], ln))
    if len(model) != len(lines):
        raise fv.InfraError('driver answered %d lines to %d requests' % (len(outs), len(lines)))
    judged = {}

    def judge_one(name, sig, lf, f, form, unit, x, r, text, replay):
        """r: the double returned for the request (name, form, x).  Judged once per distinct (request, result)."""
        key = (name, form, bits(x), bits(r))
        if key in judged:
            if judged[key]:
                ctx.violation(judged[key][0], '%s: %s' % (text, judged[key][1]), replay)
            return
        judged[key] = None
        ctx.cov['traces_validated_against_impl'] += 1
        means = 'degrees' if unit.deg else 'radians'
        if not math.isfinite(r):
            judged[key] = ('C19/%s-not-finite' % sig, 'returned %r' % r)
        else:
            fr, fx = Fraction(r), Fraction(x)
            lo = Fraction(0) if sig == 'heading' else -unit.T / 2
            d = reduce_mod(fr - (unit.Q - fx), unit.T)
            mdl, mdl_r = model[(lf, form, bits(x))], model[(lf + '_r', form, bits(x))]
            if not (lo <= fr < lo + unit.T):
                judged[key] = ('C19/%s-out-of-range' % sig, 'the call asks for %s; %r is outside [%s, %s)'
                               % (means, r, float(lo), float(lo + unit.T)))
            elif abs(d) > unit.tol(x):
                judged[key] = ('C19/%s-not-congruent' % sig, 'the call asks for %s; %r differs from %s - x modulo a turn by %.3e '
                               '(tolerance %.3e)' % (means, r, '90' if unit.deg else 'pi/2', float(d), float(unit.tol(x))))
            elif fr != mdl_r:
                # the same request in its plain form: is it this call form, or the arithmetic, that left the model?
                try:
                    ref = float(f(float(x), deg=unit.deg))
                except Exception:  # noqa
                    ref = None
                if ref is not None and Fraction(ref) == mdl_r:
                    judged[key] = ('C19/call-form-differ', 'returned %r, but the same request written %s(%r, deg=%s) returns %r '
                                   '(= the Lean model of the call)' % (r, name, float(x), unit.deg, ref))
                else:
                    ctx.disagree('%s = %r but the rounded model of the call gives %.17g' % (text, r, float(mdl_r)), replay)
            if not (lo <= mdl < lo + unit.Tm):
                ctx.disagree('model result %s of %s outside its proved range' % (mdl, text), replay)
        if judged[key]:
            ctx.violation(judged[key][0], '%s: %s' % (text, judged[key][1]), replay)

    def one_call(name, sig, lf, f, form, unit, spelling, pargs, kwargs, label, obj, xs, kw_first):
        text = show_call(name, label, spelling, kw_first)
        replay = {'unit': unit.name, 'x_bits': [bits(x) for x in xs[:8]] if len(xs) > 1 else bits(xs[0]), 'x': repr(xs[0]),
                  'category': 'call-form', 'function': name, 'call': text, 'argument': repr(obj)[:200]}
        ctx.count('form_%s_%s' % (form, 'kwfirst' if kw_first else 'positional'))
        try:
            res = f(*pargs, **dict(kwargs, **{kw_first: obj})) if kw_first else f(obj, *pargs, **kwargs)
        except TypeError as e:
            if isinstance(obj, (list, tuple)):
                ctx.count('sequence_not_accepted')      # plain sequences are not an accepted input (np.ndarray is)
                return
            ctx.violation('C19/%s-raised' % name, '%s with x = %r raised TypeError: %s' % (text, xs[0], e), replay)
            return
        except Exception as e:  # noqa
            ctx.violation('C19/%s-raised' % name, '%s with x = %r raised %s: %s' % (text, xs[0], type(e).__name__, e), replay)
            return
        try:
            got = np.asarray(res, dtype=np.float64)
        except Exception:  # noqa
            got = None
        want_shape = np.shape(obj)
        if got is None or got.shape != want_shape:
            ctx.violation('C19/array-shape', '%s: argument of shape %s, result %s of shape %s'
                          % (text, want_shape, type(res).__name__, None if got is None else got.shape), replay)
            return
        for x, r in zip(xs, got.reshape(-1)):
            rep = replay if len(xs) == 1 else dict(replay, x_bits=bits(x), x=repr(x))
            judge_one(name, sig, lf, f, form, unit, x, float(r), '%s with x = %r' % (text, x), rep)

    for name, sig, lf, f in funcs:
        for form, deg, spellings in FORMS:
            unit = DEG if deg else RAD
            for spelling, pargs, kwargs in spellings:
                kws = [None] + ([first[name]] if first[name] and not pargs else [])
                for kw_first in kws:
                    for x in values:
                        for label, obj in representations(x, deg):
                            one_call(name, sig, lf, f, form, unit, spelling, pargs, kwargs, label, obj, [x], kw_first)
                    # whole arrays: float64 1-D, 2-D, transposed copy, the integral values as an integer array, a list of floats
                    a = np.array(values, dtype=np.float64)
                    n2 = len(a) // 2 * 2
                    ints = [v for v in values if v == math.floor(v) and abs(v) < 2.0 ** 31]
                    one_call(name, sig, lf, f, form, unit, spelling, pargs, kwargs, 'float64 array', a, values, kw_first)
                    if n2:
                        one_call(name, sig, lf, f, form, unit, spelling, pargs, kwargs, '2-d float64 array', a[:n2].reshape(2, -1),
                                 values[:n2], kw_first)
                        one_call(name, sig, lf, f, form, unit, spelling, pargs, kwargs, 'Fortran-order 2-d array',
                                 np.asfortranarray(a[:n2].reshape(2, -1)), values[:n2], kw_first)
                    if ints:
                        one_call(name, sig, lf, f, form, unit, spelling, pargs, kwargs, 'int64 array',
                                 np.array([int(v) for v in ints], dtype=np.int64), ints, kw_first)
                    one_call(name, sig, lf, f, form, unit, spelling, pargs, kwargs, 'list of floats', list(values), values, kw_first)


# ---- element orders: the same values as arrays in every order / layout -------------------------------------------------------------
FUNCS = {'yaw_to_heading': ('heading', 'y2h', 0), 'heading_to_yaw': ('yaw', 'h2y', 1)}
# non-integer followers (degrees; scaled for radians): their results are not integers in either unit
FOLLOW = [12.75, -33.125, 200.6, 0.3, 359.999, 1e-3, 45.5, -100.2, 179.5, -0.5, 1000000.5, -719.75, 90.5, 269.5, -89.75, 77.875]


def special_firsts(unit):
    """Angles whose result lands exactly on an end of a range, on a wrap point or on zero: every multiple of an eighth turn in
    [-3, 3] turns (yaw congruent to 90 deg gives heading 0, heading congruent to 270 deg gives yaw -180, ...), spelled every way
    the double arithmetic offers, and the two zeros."""
    out = [0.0, -0.0]
    for k in range(-24, 25):
        if unit.deg:
            out.append(45.0 * k)
        else:
            out += [k * (math.pi / 4.0), float(np.deg2rad(45.0 * k))]
            if k % 2:
                out.append(math.pi / 2.0 + (k - 1) // 2 * math.pi)
    seen, res = set(), []
    for v in out:
        if bits(v) not in seen:
            seen.add(bits(v))
            res.append(v)
    return res


def lands_on_zero(unit, x):
    """x is (as a double computation) a quarter turn or three quarter turns away from a multiple of a turn."""
    return abs(reduce_mod(Fraction(x) - unit.Q, unit.T / 2)) <= unit.tol(x)


def layouts(vals):
    """[(label, array)] - the values of `vals` in this (C) order in several memory layouts."""
    a = np.array(vals, dtype=np.float64)
    n = len(vals)
    big = np.zeros(2 * n)
    big[::2] = a
    out = [('1-d', a), ('strided view', big[::2]), ('column', a.reshape(-1, 1))]
    if n % 2 == 0 and n > 2:
        out += [('2-d', a.reshape(2, -1)), ('Fortran-order 2-d', np.asfortranarray(a.reshape(2, -1)))]
    if n % 6 == 0:
        out.append(('3-d', a.reshape(1, 2, -1)))
    return out


def order_arrays(ctx, unit, n_rand):
    """[(vals, [layout labels])]: (1) every special value FIRST, followed by non-integers, 1-D plus one other layout in turn;
    (2) rings of special and non-integer values in every rotation; (3) one- and two-element arrays starting on a zero-landing value."""
    rng = ctx.rng
    scale = 1.0 if unit.deg else math.pi / 180.0
    pool = [v * scale for v in FOLLOW]
    spec = special_firsts(unit)
    zero = [s for s in spec if lands_on_zero(unit, s)]
    extra = ['strided view', 'column', '2-d', 'Fortran-order 2-d', '3-d']
    out = []
    for i, s in enumerate(spec):
        vals = [s] + rng.sample(pool, 3) + [rng.uniform(-1080.0, 1080.0) * scale, rng.uniform(-1e6, 1e6)]
        out.append((vals, ['1-d', extra[i % len(extra)]]))
    for _ in range(max(2, n_rand // 1500)):
        ring = rng.sample(zero, min(4, len(zero))) + rng.sample(spec, 2) + rng.sample(pool, 5) + [rng.uniform(-1080.0, 1080.0) * scale]
        rng.shuffle(ring)
        for sh in range(len(ring)):
            out.append((ring[sh:] + ring[:sh], ['1-d'] if sh % 3 else ['1-d', '2-d']))
    for s in zero:
        out.append(([s], ['1-d', 'column']))
        out.append(([s, rng.choice(pool)], ['1-d', 'column']))
    return out


class Elements:
    """Judges one element of an array result: the same double as the scalar call, the property (range, congruence), the rounded
    Lean model.  Scalar results and model values are cached per (function, input bits)."""

    def __init__(self, ctx, unit, values):
        self.ctx, self.unit = ctx, unit
        self.f = dict(zip(('yaw_to_heading', 'heading_to_yaw'), impl()))
        self.scalars = {}
        uniq = sorted({bits(x) for x in values})
        lines = []
        for b in uniq:
            lines += ['angle y2h_r %s %s' % (unit.Hbits, b), 'angle h2y_r %s %s' % (unit.Hbits, b)]
        outs = ctx.driver(lines) if lines else []
        self.model = {}
        for ln, o in zip(lines, outs):
            try:
                n, d = o.split('/')
                self.model[(ln.split()[1][:3], ln.split()[3])] = Fraction(int(n), int(d))
            except Exception:
                raise fv.InfraError('driver answered %r to %s' % (o[:80], ln))

    def scalar(self, name, x, replay):
        key = (name, bits(x))
        if key not in self.scalars:
            r = call(self.ctx, self.f[name], name, float(x), self.unit, replay)
            self.scalars[key] = None if r is None else float(r)
        return self.scalars[key]

    def judge(self, name, x, r, text, replay):
        ctx, unit = self.ctx, self.unit
        sig, lf, _ = FUNCS[name]
        r = float(r)
        if not math.isfinite(r):
            ctx.violation('C19/%s-not-finite' % sig, '%s: element for x = %r is %r' % (text, x, r), replay)
            return
        s = self.scalar(name, x, replay)
        if s is not None and bits(r) != bits(s):
            ctx.violation('C19/%s-scalar-array-differ' % sig, '%s: the element for x = %r is %r, but %s(%r, deg=%s) = %r'
                          % (text, x, r, name, x, unit.deg, s), replay)
        fr, fx = Fraction(r), Fraction(x)
        lo = Fraction(0) if sig == 'heading' else -unit.T / 2
        if not (lo <= fr < lo + unit.T):
            ctx.violation('C19/%s-out-of-range' % sig, '%s: the element for x = %r is %r, outside [%s, %s)'
                          % (text, x, r, float(lo), float(lo + unit.T)), replay)
        d = reduce_mod(fr - (unit.Q - fx), unit.T)
        if abs(d) > unit.tol(x):
            ctx.violation('C19/%s-not-congruent' % sig, '%s: the element for x = %r is %r, which differs from %s - x modulo a turn by '
                          '%.3e (tolerance %.3e)' % (text, x, r, '90' if unit.deg else 'pi/2', float(d), float(unit.tol(x))), replay)
        mdl_r = self.model.get((lf, bits(x)))
        if mdl_r is not None and fr != mdl_r:
            ctx.disagree('%s: element for x = %r is %r but the rounded model gives %.17g' % (text, x, r, float(mdl_r)), replay)
        ctx.cov['traces_validated_against_impl'] += 1


def check_array_result(ctx, unit, name, arr, res, text, replay):
    """The result of an array call has the shape of its argument and, for a floating-point argument, a floating-point dtype."""
    if not isinstance(res, np.ndarray) or res.shape != arr.shape:
        ctx.violation('C19/array-shape', '%s: argument of shape %s, result %s of shape %s'
                      % (text, arr.shape, type(res).__name__, getattr(res, 'shape', None)), replay)
        return False
    if not np.issubdtype(res.dtype, np.floating):
        ctx.violation('C19/array-dtype', '%s: the result has dtype %s - the angles are real numbers, a %s argument needs a '
                      'floating-point result (got %s)' % (text, res.dtype, arr.dtype, res.reshape(-1)[:8].tolist()), replay)
    return True


def run_order(ctx, unit, vals, labels, el=None):
    """One list of values as arrays in the named layouts, both functions; every element judged."""
    el = el or Elements(ctx, unit, vals)
    lay = dict(layouts(vals))
    for name in ('yaw_to_heading', 'heading_to_yaw'):
        for label in labels:
            arr = lay.get(label)
            if arr is None:
                continue
            replay = {'unit': unit.name, 'category': 'array-order', 'function': name, 'layout': label, 'x': repr(vals[0]),
                      'x_bits': [bits(x) for x in vals]}
            text = '%s(<%s float64 array [%s%s]>, deg=%s)' % (name, label, ', '.join(repr(v) for v in vals[:6]),
                                                              ', ...' if len(vals) > 6 else '', unit.deg)
            before = arr.tobytes()
            res = call(ctx, el.f[name], name, arr, unit, replay)
            ctx.count('%s_order_%s' % (unit.name, label.replace(' ', '_')))
            if res is None:
                continue
            if arr.tobytes() != before:
                ctx.violation('C19/input-modified', '%s changed its argument' % text, replay)
            if not check_array_result(ctx, unit, name, arr, res, text, replay):
                continue
            for x, r in zip(vals, np.asarray(res).reshape(-1)):
                el.judge(name, x, r, text, replay)
            ctx.case('%s order %s %s %s' % (unit.name, name, label, ','.join(replay['x_bits'])),
                     nontrivial=lands_on_zero(unit, vals[0]))


def array_orders(ctx, n_rand):
    for unit in (DEG, RAD):
        arrays = order_arrays(ctx, unit, n_rand)
        el = Elements(ctx, unit, [x for vals, _ in arrays for x in vals])
        for vals, labels in arrays:
            run_order(ctx, unit, vals, labels, el)


# ---- results of earlier calls stay what they were ----------------------------------------------------------------------------------
COMBOS = [(n, u) for n in ('yaw_to_heading', 'heading_to_yaw') for u in ('deg', 'rad')]
SHAPES = [(6,), (2, 3), (3, 2), (1,), (12,), (4,), (1, 6), (2, 1, 3)]


def history_values(ctx, unit, n, integral=False):
    rng = ctx.rng
    scale = 1.0 if unit.deg else math.pi / 180.0
    if integral:
        return [float(rng.randrange(-1080, 1081)) for _ in range(n)]
    spec = special_firsts(unit)
    return [rng.choice(spec) if rng.random() < 0.25 else
            (rng.choice(FOLLOW) * scale if rng.random() < 0.5 else rng.uniform(-1080.0, 1080.0) * scale) for _ in range(n)]


def make_step(ctx, combo, shape, dtype='float64', src=None, arg_of=None, refill=0, scribble=False):
    name, uname = combo
    st = {'function': name, 'unit': uname}
    if arg_of is not None:
        # the caller's own array object of an earlier call, passed again: as it is, or after the caller wrote new values into it
        # (`refill` of them), and possibly after the caller changed the result of that earlier call in place
        st['arg_of'] = arg_of
        if refill:
            st['new_x_bits'] = [bits(x) for x in history_values(ctx, UNITS[uname], refill)]
        if scribble:
            st['caller_changed_result_of'] = arg_of
    elif src is not None:
        st['input_from'] = src
    elif shape is None:
        st['scalar'] = bits(history_values(ctx, UNITS[uname], 1)[0])
    else:
        st.update(shape=list(shape), dtype=dtype,
                  x_bits=[bits(x) for x in history_values(ctx, UNITS[uname], int(np.prod(shape)), dtype != 'float64')])
    return st


def histories(ctx, n_random, n_steps):
    """Lists of steps.  Fixed: every (function, unit) twice on equally shaped inputs (so every ordered pair of calls occurs), for several
    shapes; the same on alternating shapes; round trips that feed a held result back in.  Random: shapes mostly repeated, some
    integer-dtype inputs, scalar calls in between, results fed back in."""
    rng = ctx.rng
    out = []
    for shape in ((6,), (2, 3), (1,)):
        order = COMBOS + rng.sample(COMBOS, len(COMBOS))
        out.append([make_step(ctx, c, shape) for c in order])
    out.append([make_step(ctx, c, SHAPES[i % 3]) for i, c in enumerate(COMBOS + COMBOS[::-1] + COMBOS)])
    for name, uname in COMBOS:
        other = 'heading_to_yaw' if name == 'yaw_to_heading' else 'yaw_to_heading'
        out.append([make_step(ctx, (name, uname), (5,)), make_step(ctx, (other, uname), None, src=0),
                    make_step(ctx, (name, uname), None, src=1), make_step(ctx, (other, uname), (5,))])
    # the caller's argument array passed again: unchanged, refilled in place, after the earlier result was edited by the caller;
    # same function and the other one, same unit and the other one
    for name, uname in COMBOS:
        other = 'heading_to_yaw' if name == 'yaw_to_heading' else 'yaw_to_heading'
        ou = 'rad' if uname == 'deg' else 'deg'
        out.append([make_step(ctx, (name, uname), (6,)), make_step(ctx, (name, uname), None, arg_of=0, refill=6),
                    make_step(ctx, (name, uname), None, arg_of=0), make_step(ctx, (name, uname), None, arg_of=0, scribble=True),
                    make_step(ctx, (other, uname), None, arg_of=0, refill=2), make_step(ctx, (name, ou), None, arg_of=0),
                    make_step(ctx, (name, uname), None, arg_of=0, refill=1)])
        out.append([make_step(ctx, (name, uname), (2, 3)), make_step(ctx, (other, uname), (2, 3)),
                    make_step(ctx, (name, uname), None, arg_of=0, refill=3), make_step(ctx, (other, uname), None, arg_of=1, scribble=True)])
    for _ in range(n_random):
        main = rng.choice(SHAPES)
        steps, arrays = [], []
        for i in range(n_steps):
            combo = rng.choice(COMBOS)
            k = rng.random()
            fresh = [j for j in arrays if 'x_bits' in steps[j] and steps[j]['dtype'] == 'float64']
            if fresh and k < 0.12:
                j = rng.choice(fresh)
                steps.append(make_step(ctx, combo if rng.random() < 0.3 else (steps[j]['function'], steps[j]['unit']), None, arg_of=j,
                                       refill=rng.choice([0, 1, 2, int(np.prod(steps[j]['shape']))]), scribble=rng.random() < 0.3))
            elif arrays and k < 0.2:
                steps.append(make_step(ctx, combo, None, src=rng.choice(arrays)))
            elif k < 0.3:
                steps.append(make_step(ctx, combo, None))
                continue
            else:
                shape = main if rng.random() < 0.65 else rng.choice(SHAPES)
                steps.append(make_step(ctx, combo, shape, 'int64' if rng.random() < 0.15 else 'float64'))
            arrays.append(i)
        out.append(steps)
    return out


def show_step(i, st):
    what = ('the argument array of call #%d%s%s' % (st['arg_of'] + 1, ', refilled in place' if 'new_x_bits' in st else ' again',
                                                     ', result of that call edited by the caller' if 'caller_changed_result_of' in st else '')) \
        if 'arg_of' in st else 'result of call #%d' % (st['input_from'] + 1) if 'input_from' in st else \
        repr(from_bits(st['scalar'])) if 'scalar' in st else '<%s array of shape %s>' % (st['dtype'], tuple(st['shape']))
    return 'call #%d %s(%s, deg=%s)' % (i + 1, st['function'], what, UNITS[st['unit']].deg)


def run_history(ctx, steps):
    """Runs the calls in order, keeps every returned array, and after every call looks at all of them again: each must still
    hold exactly what it held when it was returned.  Afterwards the caller re-uses its own buffers (overwrites each argument, then each
    result in turn): no other result may change.  Stops at the first finding of a history."""
    fs = dict(zip(('yaw_to_heading', 'heading_to_yaw'), impl()))
    held = []        # (step index, result array, bytes when returned)
    results = {}     # step index -> result array
    owned = []       # argument arrays built here
    els = {}

    def rep(i):
        first = next((s for s in steps if 'x_bits' in s), None)
        return {'category': 'held-results', 'unit': steps[i]['unit'], 'function': steps[i]['function'],
                'x_bits': first['x_bits'][:8] if first else [], 'steps': steps[:i + 1]}

    def intact(i, after):
        for j, r, snap in held:
            if r.tobytes() != snap:
                was = np.frombuffer(snap, dtype=r.dtype)
                ctx.violation('C19/result-changed-by-later-call', 'the array returned by %s held %s when it was returned; after %s '
                              'it holds %s' % (show_step(j, steps[j]), was[:6].tolist(), after, r.reshape(-1)[:6].tolist()), rep(i))
                return False
        return True

    for i, st in enumerate(steps):
        unit = UNITS[st['unit']]
        name = st['function']
        replay = rep(i)
        ctx.count('history_calls')
        if 'scalar' in st:
            call(ctx, fs[name], name, from_bits(st['scalar']), unit, replay)
        else:
            if 'arg_of' in st:
                arr = dict(owned).get(st['arg_of'])
                if arr is None or not arr.flags.writeable:
                    continue
                if 'new_x_bits' in st:
                    flat = arr.reshape(-1)
                    for q, b in enumerate(st['new_x_bits'][:flat.size]):
                        flat[(q * 5) % flat.size] = from_bits(b)
                if 'caller_changed_result_of' in st:
                    j = st['caller_changed_result_of']
                    if j in results and results[j].flags.writeable:
                        held[:] = [h for h in held if h[0] != j]
                        results[j][...] = -999.25
                        if not intact(i, 'the caller overwrote the result of call #%d' % (j + 1)):
                            return
            elif 'input_from' in st:
                arr = results.get(st['input_from'])
                if arr is None:
                    continue
            else:
                arr = np.array([from_bits(b) for b in st['x_bits']], dtype=np.float64).astype(st['dtype']).reshape(st['shape'])
                owned.append((i, arr))
            vals = [float(v) for v in arr.reshape(-1)]
            before = arr.tobytes()
            res = call(ctx, fs[name], name, arr, unit, replay)
            if res is None:
                return
            text = show_step(i, st)
            if arr.tobytes() != before:
                ctx.violation('C19/input-modified', '%s changed its argument' % text, replay)
                return
            if not check_array_result(ctx, unit, name, arr, res, text, replay):
                return
            if unit.name not in els:
                els[unit.name] = Elements(ctx, unit, [])   # scalar results only; the values are judged by the other stages
            el = els[unit.name]
            for x, r in zip(vals, res.reshape(-1)):
                s = el.scalar(name, x, replay)
                if s is not None and bits(float(r)) != bits(s):
                    ctx.violation('C19/%s-scalar-array-differ' % FUNCS[name][0], '%s: the element for x = %r is %r, but %s(%r, deg=%s) '
                                  '= %r' % (text, x, float(r), name, x, unit.deg, s), replay)
                    return
            results[i] = res
            held.append((i, res, res.tobytes()))
        if not intact(i, show_step(i, st)):
            return
    last = len(steps) - 1
    for i, arr in owned:
        if arr.flags.writeable:
            arr[...] = 7
            for j, r, snap in held:
                if r.tobytes() != snap:
                    ctx.violation('C19/result-aliases-input', 'the array returned by %s changes when the caller overwrites the argument '
                                  'of %s' % (show_step(j, steps[j]), show_step(i, steps[i])), rep(last))
                    return
    for k, (i, r, _) in enumerate(held):
        if not r.flags.writeable:
            continue
        r[...] = -12345.5
        for j, r2, snap in held[k + 1:]:
            if r2.tobytes() != snap:
                ctx.violation('C19/results-share-memory', 'the array returned by %s changes when the caller overwrites the array '
                              'returned by %s' % (show_step(j, steps[j]), show_step(i, steps[i])), rep(last))
                return
    ctx.case('history ' + json.dumps(steps, sort_keys=True), nontrivial=True)


def held_results(ctx, n_rand):
    for steps in histories(ctx, max(6, n_rand // 400), 12):
        run_history(ctx, steps)

# ---- array sizes: boundary lengths around powers of two and multiples of common block sizes ---------------------------------------
BLOCKS = (1000, 1024, 4096, 8192, 10000, 1 << 15, 1 << 16, 100000)
SIZE_LAYOUTS = ('strided view', 'column', 'row', '2-d', 'Fortran-order 2-d', 'reversed view')


def boundary_sizes(ctx):
    """2^k - 1, 2^k, 2^k + 1 for every k up to 17 (thorough: 20), and m * b + {-1, 0, 1, 2} for the common block sizes b."""
    kmax = 20 if ctx.thorough else 17
    mmax = 4 if ctx.thorough else 2
    sizes = set()
    for k in range(1, kmax + 1):
        sizes |= {2 ** k - 1, 2 ** k, 2 ** k + 1}
    for b in BLOCKS:
        for m in range(1, (mmax if b >= 1 << 15 else mmax + 1) + 1):
            sizes |= {m * b - 1, m * b, m * b + 1, m * b + 2}
    return sorted(sizes)


def size_pool(ctx, unit):
    """(pool, hot): the distinct values the large arrays are filled with; hot = indices of the values whose plain difference
    (quarter turn - x) lies outside BOTH target ranges, so that an element that is left unwrapped cannot go unnoticed."""
    rng = ctx.rng
    scale = 1.0 if unit.deg else math.pi / 180.0
    pool = [v * scale for v in FOLLOW] + rng.sample(special_firsts(unit), 12)
    pool += [rng.uniform(-1080.0, 1080.0) * scale for _ in range(12)] + [rng.uniform(-1e6, 1e6) for _ in range(4)]
    pool += [rng.uniform(300.0, 1080.0) * scale for _ in range(6)] + [rng.uniform(-1080.0, -300.0) * scale for _ in range(6)]
    seen, out = set(), []
    for v in pool:
        if bits(v) not in seen:
            seen.add(bits(v))
            out.append(v)
    hot = [i for i, v in enumerate(out) if not (-unit.T / 2 <= unit.Q - Fraction(v) < unit.T)]
    return out, hot


def size_fill(n, npool, hot, fill_seed):
    """Index into the pool for each of the n positions: random, with out-of-range values at the first and the last position and
    on both sides of every multiple of 256 (hence of every larger power-of-two block) and of every multiple of 1000."""
    rs = np.random.RandomState(fill_seed)
    idx = rs.randint(0, npool, n)
    edges = np.concatenate([np.arange(0, n, 256), np.arange(0, n, 1000), [n - 1, n - 2]])
    pos = np.unique(np.clip(np.concatenate([edges - 1, edges, edges + 1]), 0, n - 1))
    idx[pos] = np.array(hot)[rs.randint(0, len(hot), len(pos))]
    return idx


def size_layout(flat, label):
    """The values of the 1-D array `flat` (in this logical C order) in another shape / memory layout; None when not possible."""
    n = len(flat)
    if label == '1-d':
        return flat.copy()
    if label == 'strided view':
        big = np.zeros(2 * n)
        big[::2] = flat
        return big[::2]
    if label == 'reversed view':
        return flat[::-1].copy()[::-1]
    if label == 'column':
        return flat.reshape(-1, 1).copy()
    if label == 'row':
        return flat.reshape(1, -1).copy()
    for d in (2, 3, 5, 7):
        if n % d == 0 and n > d:
            a = flat.reshape(d, -1) if d == 2 else flat.reshape(-1, d)
            return a.copy() if label == '2-d' else np.asfortranarray(a)
    return None


def run_size(ctx, unit, n, labels, pool, hot, fill_seed, el):
    """One length: the array in the named layouts, both functions; the whole result compared (bitwise, vectorised) with the scalar
    results of the distinct values; every differing element (the first few), the first and the last one are judged one by one."""
    idx = size_fill(n, len(pool), hot, fill_seed)
    flat = np.array(pool, dtype=np.float64)[idx]
    for name in ('yaw_to_heading', 'heading_to_yaw'):
        base = {'unit': unit.name, 'category': 'array-size', 'function': name, 'size': n, 'fill_seed': fill_seed,
                'pool_bits': [bits(v) for v in pool], 'hot': hot}
        scal = []
        for v in pool:
            s = el.scalar(name, v, dict(base, x_bits=bits(v), x=repr(v)))
            scal.append(float('nan') if s is None else s)
        want = np.array(scal, dtype=np.float64)[idx]
        for label in labels:
            arr = size_layout(flat, label)
            if arr is None:
                continue
            replay = dict(base, layout=label, x_bits=bits(flat[-1]), x=repr(float(flat[-1])))
            text = '%s(<%s float64 array of %d elements>, deg=%s)' % (name, label, n, unit.deg)
            before = arr.tobytes()
            res = call(ctx, el.f[name], name, arr, unit, replay)
            ctx.count('%s_size_%s' % (unit.name, label.replace(' ', '_')))
            if res is None:
                continue
            if arr.tobytes() != before:
                ctx.violation('C19/input-modified', '%s changed its argument' % text, replay)
            if not check_array_result(ctx, unit, name, arr, res, text, replay):
                continue
            got = np.ascontiguousarray(np.asarray(res, dtype=np.float64).reshape(-1))
            bad = np.nonzero(got.view(np.uint64) != want.view(np.uint64))[0]
            for p in sorted(set(bad[:3].tolist() + bad[-2:].tolist() + [0, n - 1])):
                x = float(flat[p])
                el.judge(name, x, got[p], '%s, element %d of %d' % (text, p, n),
                         dict(replay, position=int(p), x_bits=bits(x), x=repr(x)))
            ctx.case('%s size %s %s %d %d' % (unit.name, name, label, n, fill_seed), nontrivial=True)


def array_sizes(ctx):
    sizes = boundary_sizes(ctx)
    for unit in (DEG, RAD):
        pool, hot = size_pool(ctx, unit)
        el = Elements(ctx, unit, pool)
        for name in ('yaw_to_heading', 'heading_to_yaw'):      # the distinct values themselves, judged as scalars
            for v in pool:
                rep = {'unit': unit.name, 'category': 'array-size-pool', 'function': name, 'x_bits': bits(v), 'x': repr(v)}
                s = el.scalar(name, v, rep)
                if s is not None:
                    el.judge(name, v, s, '%s(%r, deg=%s)' % (name, v, unit.deg), rep)
        for i, n in enumerate(sizes):
            labels = ['1-d'] if n < 8 else ['1-d', SIZE_LAYOUTS[i % len(SIZE_LAYOUTS)]]
            run_size(ctx, unit, n, labels, pool, hot, ctx.rng.randrange(1 << 30), el)


# ---- fresh interpreters: the first calls of a process -------------------------------------------------------------------------------
# The child: imports the package, then runs each scenario (a list of calls) either directly (one scenario = this fresh interpreter)
# or, for several scenarios, each in a fork() of the freshly imported state - no conversion has been called in it yet.
CHILD = r"""
import json, os, struct, sys
import numpy as np
from fusion_engine_client.messages import defs
F = {'yaw_to_heading': defs.yaw_to_heading, 'heading_to_yaw': defs.heading_to_yaw}


def build(c):
    xs = [struct.unpack('>d', bytes.fromhex(b))[0] for b in c['x_bits']]
    k = c['kind']
    if k == 'float':
        return xs[0]
    if k == 'int':
        return int(xs[0])
    if k == 'np.float64':
        return np.float64(xs[0])
    if k == '0-d array':
        return np.array(xs[0])
    if k == 'list':
        return list(xs)
    a = np.array(xs, dtype=np.float64)
    if k == '2-d array':
        return a.reshape(2, -1)
    if k == 'column':
        return a.reshape(-1, 1)
    if k == 'strided view':
        big = np.zeros(2 * len(a))
        big[::2] = a
        return big[::2]
    if k == 'int64 array':
        return a.astype(np.int64)
    return a


def run(sc):
    out = []
    for c in sc:
        try:
            f, arg, form = F[c['function']], build(c), c['form']
            res = f(arg) if form == 'omitted' else f(arg, c['deg']) if form == 'positional' else f(arg, deg=c['deg'])
            a = np.asarray(res, dtype=np.float64)
            out.append({'type': type(res).__name__, 'shape': list(a.shape), 'dtype': str(getattr(res, 'dtype', '')),
                        'bits': [struct.pack('>d', float(v)).hex() for v in a.reshape(-1)]})
        except BaseException as e:
            out.append({'raised': type(e).__name__, 'message': str(e)[:300]})
    return out


req = json.loads(sys.stdin.read())
results = []
if len(req) == 1:
    results.append(run(req[0]))
else:
    sys.stdout.flush()
    for sc in req:
        r, w = os.pipe()
        pid = os.fork()
        if pid == 0:
            try:
                os.close(r)
                with os.fdopen(w, 'w') as fw:
                    fw.write(json.dumps(run(sc)))
            finally:
                os._exit(0)
        os.close(w)
        with os.fdopen(r) as fr:
            data = fr.read()
        os.waitpid(pid, 0)
        try:
            results.append(json.loads(data))
        except Exception:
            results.append(None)
sys.stdout.write('\nC19-RESULT ' + json.dumps(results) + '\n')
"""
KINDS = ['1-d array', 'one-element array', '2-d array', 'column', 'strided view', '0-d array', 'float', 'np.float64', 'int',
         'int64 array', 'list']
ARRAY_KINDS = ('1-d array', 'one-element array', '2-d array', 'column', 'strided view', 'int64 array', 'list')
# magnitude classes: |x| <= M for every element (the usual limits of "looks like radians / like degrees" and of one turn)
MAGS = [('<=1e-3', 1e-3), ('<=1', 1.0), ('<=pi', math.pi), ('<=2pi', 2.0 * math.pi), ('<=90', 90.0), ('<=180', 180.0),
        ('<=360', 360.0), ('<=1080', 1080.0), ('<=1e6', 1e6), ('zeros', 0.0)]


def fresh_values(ctx, kind, mag):
    rng = ctx.rng
    n = 1 if kind not in ARRAY_KINDS or kind == 'one-element array' else 4
    if mag == 0.0:
        return [rng.choice([0.0, -0.0]) if kind not in ('int', 'int64 array') else 0.0 for _ in range(n)]
    if kind in ('int', 'int64 array'):
        m = max(1, int(mag))
        return [float(rng.choice([-1, 1]) * rng.randint(1, m)) for _ in range(n)]
    vals = [rng.uniform(-mag, mag) for _ in range(n)]
    if rng.random() < 0.3:
        vals[rng.randrange(n)] = rng.choice([-mag, mag])
    return vals


def fresh_call(ctx, name, unit, kind, mag):
    form = ctx.rng.choice(['omitted', 'positional', 'keyword'] if unit.deg else ['positional', 'keyword'])
    return {'function': name, 'unit': unit.name, 'deg': unit.deg, 'form': form, 'kind': kind,
            'x_bits': [bits(v) for v in fresh_values(ctx, kind, mag)]}


def fresh_scenario(ctx, name, unit, kind, mag, n_follow=2):
    """The first call of the process is (name, unit, kind, magnitude); afterwards every (function, unit) in a random order, as
    array and as scalar calls on small and on wide values - they are the SECOND.. calls after that first one."""
    rng = ctx.rng
    sc = [fresh_call(ctx, name, unit, kind, mag)]
    rest = []
    for n2, u2 in COMBOS:
        for _ in range(n_follow):
            rest.append(fresh_call(ctx, n2, UNITS[u2], rng.choice(KINDS[:-1]), rng.choice(MAGS)[1]))
    rng.shuffle(rest)
    return sc + rest


def show_fresh(c):
    xs = [from_bits(b) for b in c['x_bits']]
    arg = repr(xs[0]) if c['kind'] == 'float' else repr(int(xs[0])) if c['kind'] == 'int' else \
        '<%s %s>' % (c['kind'], repr(xs[0]) if c['kind'] in ('np.float64', '0-d array') else repr(xs))
    return '%s(%s%s)' % (c['function'], arg, '' if c['form'] == 'omitted' else ', %s' % c['deg'] if c['form'] == 'positional'
                         else ', deg=%s' % c['deg'])


def run_children(batches):
    """batches: lists of scenarios, one child interpreter each (a list of one scenario runs in that interpreter itself, a longer
    list in forks of its freshly imported state).  Returns the per-batch lists of per-scenario results."""
    import subprocess
    import sys
    import threading
    env = dict(__import__('os').environ, OPENBLAS_NUM_THREADS='1', OMP_NUM_THREADS='1')
    out = [None] * len(batches)
    sem = threading.Semaphore(8)

    def work(i):
        with sem:
            try:
                p = subprocess.run([sys.executable, '-c', CHILD], input=json.dumps(batches[i]), capture_output=True, text=True,
                                   timeout=600, env=env)
            except subprocess.TimeoutExpired:
                out[i] = 'timed out'
                return
            line = [ln for ln in p.stdout.split('\n') if ln.startswith('C19-RESULT ')]
            out[i] = json.loads(line[-1][len('C19-RESULT '):]) if line else 'exit %s: %s' % (p.returncode, p.stderr[-400:])
    ths = [threading.Thread(target=work, args=(i,)) for i in range(len(batches))]
    for t in ths:
        t.start()
    for t in ths:
        t.join()
    return out


def judge_fresh(ctx, sc, results, els, how):
    """Every call of one process: an exception is a violation (a plain sequence may be refused with TypeError, as in the call-form
    stage); the result has the argument's shape and every element is judged like any other (scalar, property, rounded model)."""
    for i, (c, r) in enumerate(zip(sc, results)):
        unit = UNITS[c['unit']]
        name = c['function']
        xs = [from_bits(b) for b in c['x_bits']]
        where = 'call #%d of %s' % (i + 1, how) + ('' if i == 0 else ' (after %s)' % '; '.join(show_fresh(p) for p in sc[:i][-3:]))
        text = '%s: %s' % (where, show_fresh(c))
        replay = {'category': 'fresh-process', 'unit': unit.name, 'function': name, 'x_bits': c['x_bits'], 'x': repr(xs[0]),
                  'call': show_fresh(c), 'calls': sc[:i + 1]}
        ctx.count('fresh_%s_%s' % ('first' if i == 0 else 'later', c['kind'].replace(' ', '_')))
        if 'raised' in r:
            if c['kind'] == 'list' and r['raised'] == 'TypeError':
                ctx.count('sequence_not_accepted')
                continue
            ctx.violation('C19/%s-raised' % name, '%s raised %s: %s' % (text, r['raised'], r['message']), replay)
            return      # the state of this process is no longer the one the scenario meant to set up
        shape = {'2-d array': [2, len(xs) // 2], 'column': [len(xs), 1]}.get(c['kind'], [len(xs)] if c['kind'] in ARRAY_KINDS else [])
        if r['shape'] != shape or (c['kind'] in ARRAY_KINDS and r['type'] != 'ndarray'):
            ctx.violation('C19/array-shape', '%s: argument of shape %s, result %s of shape %s' % (text, shape, r['type'], r['shape']),
                          replay)
            continue
        for x, rb in zip(xs, r['bits']):
            els[unit.name].judge(name, x, from_bits(rb), text, replay)
    ctx.case('fresh ' + json.dumps(sc, sort_keys=True), nontrivial=True)


def fresh_processes(ctx):
    """(a) every (function, unit, argument kind, magnitude class) as the FIRST conversion of a process, each in a fork of a freshly
    imported interpreter (quick: the classes up to 2 pi, one turn, zeros and one other); (b) a selection of them (quick: an array-first
    and a scalar-first process per function x unit; thorough: every function x unit x kind, two magnitudes) in interpreters started
    for that one scenario."""
    rng = ctx.rng
    forked, alone = [], []
    nf = 2 if ctx.thorough else 1
    for name, uname in COMBOS:
        unit = UNITS[uname]
        for kind in KINDS:
            # quick: every class up to 2 pi, one turn, all zeros, and one of the others
            mags = MAGS if ctx.thorough else MAGS[:4] + [MAGS[6], MAGS[9], rng.choice([MAGS[4], MAGS[5], MAGS[7], MAGS[8]])]
            for _, mag in mags:
                forked.append(fresh_scenario(ctx, name, unit, kind, mag, nf))
            if ctx.thorough:
                for _, mag in rng.sample(MAGS[:4], 1) + rng.sample(MAGS[4:-1], 1):
                    alone.append(fresh_scenario(ctx, name, unit, kind, mag, nf))
        if not ctx.thorough:
            alone.append(fresh_scenario(ctx, name, unit, rng.choice(ARRAY_KINDS[:5]), rng.choice(MAGS[:7])[1], nf))
            alone.append(fresh_scenario(ctx, name, unit, rng.choice(KINDS[5:8]), rng.choice(MAGS[:7])[1], nf))
    nb = 8 if ctx.thorough else 4
    batches = [forked[i::nb] for i in range(nb)] + [[sc] for sc in alone]
    outs = run_children(batches)
    els = {}
    for unit in (DEG, RAD):
        vals = [from_bits(b) for batch in batches for sc in batch for c in sc if c['unit'] == unit.name for b in c['x_bits']]
        els[unit.name] = Elements(ctx, unit, vals)
    for bi, (batch, res) in enumerate(zip(batches, outs)):
        how = 'a fresh interpreter' if bi >= nb else 'a fork of a freshly imported interpreter'
        if not isinstance(res, list) or len(res) != len(batch) or any(r is None or len(r) != len(sc) for r, sc in zip(res, batch)):
            raise fv.InfraError('C19 child interpreter gave no usable answer: %s' % (str(res)[:400],))
        for sc, r in zip(batch, res):
            judge_fresh(ctx, sc, r, els, how)


def run_fresh_replay(ctx, calls):
    out = run_children([[calls]])[0]
    if not isinstance(out, list):
        raise fv.InfraError('C19 child interpreter gave no usable answer: %s' % (str(out)[:400],))
    els = {u.name: Elements(ctx, u, [from_bits(b) for c in calls if c['unit'] == u.name for b in c['x_bits']]) for u in (DEG, RAD)}
    judge_fresh(ctx, calls, out[0], els, 'a fresh interpreter')


def run(ctx, n_rand, step_div):
    for unit in (DEG, RAD):
        run_unit(ctx, unit, inputs(ctx, unit, n_rand, step_div))
    misc(ctx)
    array_orders(ctx, n_rand)
    held_results(ctx, n_rand)
    array_sizes(ctx)
    fresh_processes(ctx)
    call_forms(ctx, form_values(ctx, max(10, n_rand // 150)))


def search(ctx):
    ctx.notes.append('stage E: widened search')
    run(ctx, 8000, 16)


def check(ctx):
    ctx.cov['rule'] = ('inputs per unit (degrees; radians = same set scaled by pi/180 plus multiples of the double pi/4): grid over '
                       '[-1080, 1080] with step 1/%d, every multiple of 45 with its 3 nextafter neighbours on each side and +-tiny '
                       'offsets, tiny values (+-0, +-5e-324, +-1e-300, +-1e-17, min normal, +-1e-14, +-3e-14), uniform random in '
                       '[-1080, 1080] and [-1e6, 1e6], log-uniform magnitudes 1e-12..1e6, random integers, neighbours of wrap points '
                       'thousands of turns away; each as python float, numpy scalar and element of 1-D / 2-D / strided arrays. Call forms: '
                       'multiples of 45 deg and of pi/4, wrap-point neighbours, integer-dtype limits and random values, each through '
                       'every call form (unit flag omitted / positional / keyword; True/False, 1/0, numpy bools; angle positional or '
                       'by keyword; float, int, every numpy integer/float dtype that holds the value, 0-d/1-d/2-d arrays, whole '
                       'arrays, lists where accepted) against the Lean model of that call; signature (angle, deg=True). Element orders: '
                       'arrays starting on every multiple of an eighth turn (all spellings) followed by non-integers, rings in every '
                       'rotation, 6 layouts, result dtype floating, each element == scalar == rounded model and judged by the '
                       'property. Held results: call histories (both functions/units, equal and different shapes, results fed back '
                       'in); every returned array re-read after every later call and after the caller overwrites arguments and other '
                       'results. Array sizes: 2^k-1, 2^k, 2^k+1 (k <= %d) and m*b+{-1,0,1,2} for block sizes 1000..100000, '
                       'out-of-range values at the first/last position and around every multiple of 256 and 1000, whole result == scalar '
                       'results bitwise. Fresh interpreters: every (function, unit, argument kind, magnitude class) as the first '
                       'conversion of a process (forks of a freshly imported interpreter plus interpreters of their own), then the '
                       'other functions/units; exceptions are violations, elements judged as everywhere. A case '
                       'is non-trivial when a wrap took place (result differs from quarter turn - x by a turn or more) or x is within 8 tolerances of a wrap '
                       'point; distinct = distinct (unit, input bits).' % (32 if ctx.thorough else 8, 20 if ctx.thorough else 17))
    ctx.assumptions += [
        'PARTIAL: the theorems are over exact rationals; IEEE-754 rounding of the three +/- operations is not modelled. The '
        'in-range claim at rounding boundaries (a result rounded to exactly 360.0 / 180.0) is covered by the boundary inputs of this '
        'check only (every multiple of 45 +- 1..3 ulp, tiny offsets, far wrap points), not by the theorems.',
        'the model (Model/Angle.lean, over Lean core Rat = Mathlib Q, the very definitions the theorems are about) is tied to '
        'defs.py by comparing the exact model result with the double result modulo a full turn within 4 ulp(turn)*max(1,|x|/turn)',
        'np.fmod is C fmod: exact remainder with the sign of the dividend (modelled as x - y*trunc(x/y)); tested against exact '
        'rational arithmetic on every 3rd input',
        'the rounded-arithmetic range theorems (C19_heading_range_rounded, C19_yaw_range_rounded, C19_range_binary64) assume the '
        'hypotheses of Spec/Angle.lean `Rounding` (monotone rounding, exact on representable values, fmod closed); that binary64 '
        'round-to-nearest-even satisfies them is standard IEEE-754, NOT proved; the executable instance Angle.roundDouble is tied '
        'to NumPy by exact equality of the results on every generated input; for radians the spacing fact below 2*math.pi is a '
        'hypothesis of the theorem',
        'radian oracle uses the real pi (60 digits); the code reduces modulo the double 2*math.pi, whose relative error 3.9e-17 '
        'stays inside the stated tolerance for every magnitude',
        'radian range is judged in the reals: a double r is in [0, 2pi) iff r <= 2*math.pi',
        'driver conversion bits -> exact rational (Angle.ofBits) is checked against Python Fraction(float) on every 7th input']
    ctx.prove(MODULES)
    try:
        run(ctx, 12000 if ctx.thorough else 3000, 32 if ctx.thorough else 8)
    except fv.InfraError:
        if not ctx.proof_failures:
            raise
    code = fv.finish(ctx, 'proof', search)
    return code


def replay(ctx, path):
    obj = json.load(open(path))
    r = obj['input']
    xb = r.get('x_bits')
    if r.get('category') == 'signature':
        y2h, h2y = impl()
        check_signature(ctx, r['function'], {'yaw_to_heading': y2h, 'heading_to_yaw': h2y}[r['function']])
        return fv.finish(ctx, 'proof', None)
    if r.get('category') == 'held-results':
        run_history(ctx, r['steps'])
        return fv.finish(ctx, 'proof', None)
    unit = UNITS[r['unit']]
    xs = [from_bits(b) for b in (xb if isinstance(xb, list) else [xb])]
    if r.get('category') == 'fresh-process':
        run_fresh_replay(ctx, r['calls'])
        return fv.finish(ctx, 'proof', None)
    if r.get('category') == 'array-size':
        pool = [from_bits(b) for b in r['pool_bits']]
        run_size(ctx, unit, r['size'], [r.get('layout', '1-d'), '1-d'], pool, r['hot'], r['fill_seed'], Elements(ctx, unit, pool))
        return fv.finish(ctx, 'proof', None)
    if r.get('category') == 'array-order':
        run_order(ctx, unit, xs, [r.get('layout', '1-d'), '1-d'])
        return fv.finish(ctx, 'proof', None)
    run_unit(ctx, unit, [(r.get('category', 'replay'), x) for x in xs], with_id=False)
    call_forms(ctx, xs)
    return fv.finish(ctx, 'proof', None)
