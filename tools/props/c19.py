"""C19 - yaw/heading conversions are mutually inverse and range-normalised.

Real code: fusion_engine_client.messages.defs.yaw_to_heading / heading_to_yaw (deg=True and deg=False).
Model:     lean/FeVerif/Model/Angle.lean (exact rationals; the same definitions the theorems of Props/C19.lean are about).

Stage C  every double input is sent to the Lean driver as its 64 bits; the driver converts it to the exact rational, evaluates
         the model and answers with the exact rational result.  |impl - model| is reduced modulo a full turn and must be
         <= 4 ulp(turn) * max(1, |x| / turn).  (Reducing modulo a turn means a result that rounding pushed onto the excluded end
         of the range is *not* a correspondence failure - it is a range violation, reported by stage D.)
         Second tie: the model with every + and - rounded to binary64 (Lean `roundDouble`, ties to even) must return exactly the
         double the real code returns (value equality; the sign of a zero result is not compared).
Stage D  the property statement itself on the real functions, judged in exact rational arithmetic: range, congruence to a quarter
         turn minus the input, mutual inverse up to a turn, radian variant == degree variant, scalar == array element (bitwise).
"""
import json
import math
import struct
from fractions import Fraction

import numpy as np

import fv

MODULES = ['FeVerif.Props.C19']

# pi to 60 digits: the radian oracle is stated with the real pi, not with the double math.pi
PI = Fraction('3.14159265358979323846264338327950288419716939937510582097494')


class Unit:
    def __init__(self, name, deg, half_turn, ulp_turn, true_half_turn):
        self.name = name
        self.deg = deg
        self.H = half_turn                          # the double the code uses
        self.Hbits = bits(half_turn)
        self.Tm = 2 * Fraction(half_turn)           # the period the code (and the model) reduces by
        self.T = 2 * true_half_turn                 # the period of the property statement
        self.Q = true_half_turn / 2                 # quarter turn: 90 degrees
        self.ulp = Fraction(ulp_turn)               # spacing of doubles just below a full turn

    def tol(self, x):
        return 4 * self.ulp * max(Fraction(1), abs(Fraction(x)) / self.T)


def bits(x):
    return struct.pack('>d', float(x)).hex()


def from_bits(h):
    return struct.unpack('>d', bytes.fromhex(h))[0]


DEG = Unit('deg', True, 180.0, 2.0 ** -44, Fraction(180))
RAD = Unit('rad', False, math.pi, 2.0 ** -50, PI)
assert np.spacing(np.nextafter(360.0, 0)) == 2.0 ** -44 and np.spacing(np.nextafter(2 * math.pi, 0)) == 2.0 ** -50
UNITS = {'deg': DEG, 'rad': RAD}


def impl():
    from fusion_engine_client.messages import defs
    return defs.yaw_to_heading, defs.heading_to_yaw


def reduce_mod(d, T):
    """d reduced to [-T/2, T/2]."""
    return d - T * round(d / T)


# ---- inputs ---------------------------------------------------------------------------------------------------------------------
def neighbours(b, n=3):
    out = [b]
    lo = hi = b
    for _ in range(n):
        lo = float(np.nextafter(lo, -np.inf))
        hi = float(np.nextafter(hi, np.inf))
        out += [lo, hi]
    return out


TINY = [0.0, -0.0, 5e-324, -5e-324, 1e-300, -1e-300, 1e-17, -1e-17, 2.2250738585072014e-308, 1e-14, -1e-14, 3e-14, -3e-14]


def inputs(ctx, unit, n_rand, step_div):
    """list of (category, float).  Degrees: the listed values; radians: the same set scaled, plus multiples of pi/4 as doubles."""
    rng = ctx.rng
    scale = 1.0 if unit.deg else math.pi / 180.0
    out = []
    lim = 1080
    for i in range(-lim * step_div, lim * step_div + 1):
        out.append(('grid', (i / step_div) * scale))
    for k in range(-lim // 45, lim // 45 + 1):
        base = 45.0 * k if unit.deg else k * (math.pi / 4.0)
        for v in neighbours(base):
            out.append(('mult45_nbr', v))
        for t in TINY[2:]:
            out.append(('mult45_tiny', base + t))
        if not unit.deg:
            for v in neighbours(float(np.deg2rad(45.0 * k)), 1):
                out.append(('mult45_nbr', v))
    for t in TINY:
        out.append(('tiny', t))
    for _ in range(n_rand):
        out.append(('rand_1080', rng.uniform(-1080.0, 1080.0) * scale))
    for _ in range(n_rand):
        out.append(('rand_1e6', rng.uniform(-1e6, 1e6)))
    for _ in range(n_rand // 2):
        out.append(('rand_log', math.copysign(10.0 ** rng.uniform(-12, 6), rng.random() - 0.5)))
    for _ in range(n_rand // 4):
        out.append(('rand_int', float(rng.randrange(-1000000, 1000001))))
    # wrap points seen from far away: k full turns plus a quarter, and its neighbours
    for _ in range(n_rand // 8):
        k = rng.randrange(-2500, 2500)
        base = (90.0 + 360.0 * k + rng.choice([0.0, 180.0])) if unit.deg else (math.pi / 2.0 + 2.0 * math.pi * k)
        for v in neighbours(base, 1):
            out.append(('far_wrap_nbr', v))
    return out


# ---- one unit, a batch of inputs ------------------------------------------------------------------------------------------------
def call(ctx, f, name, arg, unit, replay):
    try:
        return f(arg, deg=unit.deg)
    except Exception as e:  # noqa
        ctx.violation('C19/%s-raised' % name, '%s(%r, deg=%s) raised %s: %s' % (name, arg, unit.deg, type(e).__name__, e), replay)
        return None


def run_unit(ctx, unit, cases, with_id=True):
    y2h, h2y = impl()
    xs = [x for _, x in cases]
    lines = []
    for x in xs:
        b = bits(x)
        lines.append('angle y2h %s %s' % (unit.Hbits, b))
        lines.append('angle h2y %s %s' % (unit.Hbits, b))
    base_r = len(lines)
    for x in xs:
        b = bits(x)
        lines.append('angle y2h_r %s %s' % (unit.Hbits, b))
        lines.append('angle h2y_r %s %s' % (unit.Hbits, b))
    base_id = len(lines)
    nid = 0
    if with_id:
        for x in xs[::7]:
            lines.append('angle id %s %s' % (unit.Hbits, bits(x)))
            nid += 1
    # the array form of the model (List.map) on one batch
    arr_n = min(len(xs), 64)
    lines.append('anglearr y2h %s %s' % (unit.Hbits, ','.join(bits(x) for x in xs[:arr_n])))
    lines.append('anglearr h2y %s %s' % (unit.Hbits, ','.join(bits(x) for x in xs[:arr_n])))
    outs = ctx.driver(lines)

    def frac(s, what):
        try:
            n, d = s.split('/')
            return Fraction(int(n), int(d))
        except Exception:
            raise fv.InfraError('driver answered %r to %s' % (s[:80], what))

    model = [(frac(outs[2 * i], lines[2 * i]), frac(outs[2 * i + 1], lines[2 * i + 1]),
              frac(outs[base_r + 2 * i], lines[base_r + 2 * i]), frac(outs[base_r + 2 * i + 1], lines[base_r + 2 * i + 1]))
             for i in range(len(xs))]
    for j, x in enumerate(xs[::7] if with_id else []):
        if frac(outs[base_id + j], 'id') != Fraction(x):
            ctx.disagree('driver bits->rational conversion wrong for %r' % x, {'unit': unit.name, 'x_bits': bits(x)})
    for k, fn in enumerate(('y2h', 'h2y')):
        got = [frac(s, 'anglearr') for s in outs[base_id + nid + k].split(',')]
        if got != [m[k] for m in model[:arr_n]]:
            ctx.disagree('model array form != map of scalar form (%s)' % fn, {'unit': unit.name})

    # ---- the real code: arrays first (1-D, 2-D, strided), then every scalar
    a = np.array(xs, dtype=np.float64)
    rep_arr = {'unit': unit.name, 'x_bits': [bits(x) for x in xs[:8]], 'note': 'array call'}
    ah = call(ctx, y2h, 'yaw_to_heading', a, unit, rep_arr)
    ay = call(ctx, h2y, 'heading_to_yaw', a, unit, rep_arr)
    if ah is None or ay is None:
        return
    for name, f, ref in (('yaw_to_heading', y2h, ah), ('heading_to_yaw', h2y, ay)):
        if not (isinstance(ref, np.ndarray) and ref.shape == a.shape and ref.dtype == np.float64):
            ctx.violation('C19/array-shape', '%s(array of %d float64) returned %s' % (name, len(a), type(ref).__name__), rep_arr)
            return
        n2 = len(a) // 2 * 2
        r2 = call(ctx, f, name, a[:n2].reshape(2, -1), unit, rep_arr)
        big = np.zeros(2 * len(a))
        big[::2] = a
        r3 = call(ctx, f, name, big[::2], unit, rep_arr)
        if r2 is None or r3 is None:
            return
        if r2.shape != (2, n2 // 2) or r2.reshape(-1).tobytes() != ref[:n2].tobytes() or r3.tobytes() != ref.tobytes():
            ctx.violation('C19/array-layout-dependent', '%s gives different elements for a 2-D / strided view of the same values'
                          % name, rep_arr)

    # assumption 'np.fmod is the exact remainder with the sign of the dividend', tested on every 3rd input
    period = 2.0 * unit.H
    fm = np.fmod(a[::3], period)
    for x, r in zip(xs[::3], fm):
        fx = Fraction(x)
        q = fx / unit.Tm
        if Fraction(float(r)) != fx - unit.Tm * (math.floor(q) if q >= 0 else math.ceil(q)):
            ctx.disagree('np.fmod(%r, %r) = %r is not the exact truncated remainder' % (x, period, float(r)),
                         {'unit': unit.name, 'x_bits': bits(x)})
    for i, (cat, x) in enumerate(cases):
        judge(ctx, unit, cat, x, model[i], ah[i], ay[i], y2h, h2y)


def judge(ctx, unit, cat, x, model, arr_h, arr_y, y2h, h2y):
    replay = {'unit': unit.name, 'x_bits': bits(x), 'x': repr(x), 'category': cat}
    ctx.count('%s_%s' % (unit.name, cat))
    h = call(ctx, y2h, 'yaw_to_heading', x, unit, replay)
    y = call(ctx, h2y, 'heading_to_yaw', x, unit, replay)
    if h is None or y is None:
        return
    fx = Fraction(x)
    tol = unit.tol(x)
    wrapped = False
    for name, sig, r, arr, f, lo, mdl, mdl_r in (('yaw_to_heading', 'heading', h, arr_h, y2h, Fraction(0), model[0], model[2]),
                                                 ('heading_to_yaw', 'yaw', y, arr_y, h2y, -unit.T / 2, model[1], model[3])):
        r = float(r)
        if not math.isfinite(r):
            ctx.violation('C19/%s-not-finite' % sig, '%s(%r, deg=%s) = %r' % (name, x, unit.deg, r), replay)
            continue
        # scalars and arrays: python float, numpy scalar and array element must be the same double
        rs = call(ctx, f, name, np.float64(x), unit, replay)
        if rs is None:
            continue
        if not (bits(r) == bits(rs) == bits(arr)):
            ctx.violation('C19/%s-scalar-array-differ' % sig, '%s(%r, deg=%s): float arg -> %r, np.float64 arg -> %r, array element '
                          '-> %r' % (name, x, unit.deg, r, float(rs), float(arr)), replay)
        fr = Fraction(r)
        # range, in the reals: [lo, lo + T)
        if not (lo <= fr < lo + unit.T):
            ctx.violation('C19/%s-out-of-range' % sig, '%s(%r, deg=%s) = %r is outside [%s, %s)'
                          % (name, x, unit.deg, r, float(lo), float(lo + unit.T)), replay)
        # congruence to a quarter turn minus the input
        d = reduce_mod(fr - (unit.Q - fx), unit.T)
        if abs(d) > tol:
            ctx.violation('C19/%s-not-congruent' % sig, '%s(%r, deg=%s) = %r differs from %s - x modulo a turn by %.3e (tolerance %.3e)'
                          % (name, x, unit.deg, r, '90' if unit.deg else 'pi/2', float(d), float(tol)), replay)
        if abs(fr - (unit.Q - fx)) > unit.T / 2:
            wrapped = True      # the result is not the plain difference: at least one full turn was added or removed
        # correspondence with the exact model (period = the double the code uses)
        dm = reduce_mod(fr - mdl, unit.Tm)
        if abs(dm) > tol:
            ctx.disagree('%s(%r, deg=%s) = %r, exact model %.17g, difference modulo a turn %.3e > %.3e'
                         % (name, x, unit.deg, r, float(mdl), float(dm), float(tol)), replay)
        if not (lo <= mdl < lo + unit.Tm):
            ctx.disagree('model result %s outside its proved range' % mdl, replay)
        # the rounded model (every + and - rounded to binary64, ties to even) must give the very same double
        if fr != mdl_r:
            ctx.disagree('%s(%r, deg=%s) = %r but the rounded model gives %.17g (difference %.3e)'
                         % (name, x, unit.deg, r, float(mdl_r), float(fr - mdl_r)), replay)
        ctx.cov['traces_validated_against_impl'] += 1
    # mutually inverse up to a full turn (both orders)
    if math.isfinite(float(h)) and math.isfinite(float(y)):
        for name, inner, outer in (('heading_to_yaw(yaw_to_heading(x))', h, h2y), ('yaw_to_heading(heading_to_yaw(x))', y, y2h)):
            back = call(ctx, outer, name, float(inner), unit, replay)
            if back is None or not math.isfinite(float(back)):
                continue
            d = reduce_mod(Fraction(float(back)) - fx, unit.T)
            if abs(d) > tol + 4 * unit.ulp:
                ctx.violation('C19/not-inverse', '%s = %r for x = %r (deg=%s): differs from x modulo a turn by %.3e'
                              % (name, float(back), x, unit.deg, float(d)), replay)
    # radian variant == degree variant (x taken as degrees, converted with the real pi; the conversion error of the input is exact)
    if unit.deg and math.isfinite(float(h)) and math.isfinite(float(y)):
        xr = float(np.deg2rad(x))
        conv_err = abs(Fraction(xr) - fx * PI / 180)
        bound = RAD.tol(xr) + tol * PI / 180 + conv_err
        for name, f, rdeg in (('yaw_to_heading', y2h, h), ('heading_to_yaw', h2y, y)):
            rr = call(ctx, f, name, xr, RAD, replay)
            if rr is None or not math.isfinite(float(rr)):
                continue
            d = reduce_mod(Fraction(float(rr)) - Fraction(float(rdeg)) * PI / 180, RAD.T)
            if abs(d) > bound:
                ctx.violation('C19/rad-deg-differ', '%s(deg2rad(%r), deg=False) = %r but %s(%r) = %r deg = %.17g rad (difference %.3e)'
                              % (name, x, float(rr), name, x, float(rdeg), float(Fraction(float(rdeg)) * PI / 180), float(d)), replay)
    near = abs(reduce_mod(unit.Q - fx, unit.T / 2)) <= 8 * tol
    ctx.case('%s %s' % (unit.name, bits(x)), nontrivial=wrapped or near)
    # a few literal cases for the evidence: inputs next to a wrap point (where rounding decides the range), 3 per unit
    nsamp = sum(1 for smp in ctx.cov['samples'] if smp['unit'] == unit.name)
    if near and fx != unit.Q and abs(fx) > 1 and nsamp < 3 and cat in ('mult45_nbr', 'far_wrap_nbr'):
        ctx.sample({'unit': unit.name, 'x': repr(x), 'yaw_to_heading': repr(float(h)), 'heading_to_yaw': repr(float(y)),
                    'exact_model_yaw_to_heading': str(model[0])[:80], 'exact_model_heading_to_yaw': str(model[1])[:80],
                    'rounded_model_equal': Fraction(float(h)) == model[2] and Fraction(float(y)) == model[3]})


def misc(ctx):
    """Argument forms other than float / float64 array: Python int, integer array, list-free 0-d array; default deg=True."""
    y2h, h2y = impl()
    for name, f in (('yaw_to_heading', y2h), ('heading_to_yaw', h2y)):
        for v in (0, 90, 300, -270, 450, 1080):
            replay = {'unit': 'deg', 'x_bits': bits(v), 'x': repr(v), 'category': 'python-int'}
            try:
                a, b, c, d = f(v), f(float(v)), f(np.array([v]))[0], f(np.array(float(v)))
            except Exception as e:  # noqa
                ctx.violation('C19/%s-raised' % name, '%s(%r) raised %s' % (name, v, e), replay)
                continue
            if not (bits(a) == bits(b) == bits(c) == bits(d)):
                ctx.violation('C19/int-float-differ', '%s(%r): int %r, float %r, int array %r, 0-d array %r' % (name, v, a, b, c, d), replay)
            if bits(f(float(v), deg=True)) != bits(b):
                ctx.violation('C19/default-unit', '%s: default is not deg=True' % name, replay)
            ctx.count('deg_python_int')


def run(ctx, n_rand, step_div):
    for unit in (DEG, RAD):
        run_unit(ctx, unit, inputs(ctx, unit, n_rand, step_div))
    misc(ctx)


def search(ctx):
    ctx.notes.append('stage E: widened search')
    run(ctx, 8000, 16)


def check(ctx):
    ctx.cov['rule'] = ('inputs per unit (degrees; radians = same set scaled by pi/180 plus multiples of the double pi/4): grid over '
                       '[-1080, 1080] with step 1/%d, every multiple of 45 with its 3 nextafter neighbours on each side and +-tiny '
                       'offsets, tiny values (+-0, +-5e-324, +-1e-300, +-1e-17, min normal, +-1e-14, +-3e-14), uniform random in '
                       '[-1080, 1080] and [-1e6, 1e6], log-uniform magnitudes 1e-12..1e6, random integers, neighbours of wrap points '
                       'thousands of turns away; each as python float, numpy scalar and element of 1-D / 2-D / strided arrays. A case '
                       'is non-trivial when a wrap took place (result differs from quarter turn - x by a turn or more) or x is within 8 tolerances of a wrap '
                       'point; distinct = distinct (unit, input bits).' % (32 if ctx.thorough else 8))
    ctx.assumptions += [
        'PARTIAL: the theorems are over exact rationals; IEEE-754 rounding of the three +/- operations is not modelled. The '
        'in-range claim at rounding boundaries (a result rounded to exactly 360.0 / 180.0) is covered by the boundary inputs of this '
        'check only (every multiple of 45 +- 1..3 ulp, tiny offsets, far wrap points), not by the theorems.',
        'the model (Model/Angle.lean, over Lean core Rat = Mathlib Q, the very definitions the theorems are about) is tied to '
        'defs.py by comparing the exact model result with the double result modulo a full turn within 4 ulp(turn)*max(1,|x|/turn)',
        'np.fmod is C fmod: exact remainder with the sign of the dividend (modelled as x - y*trunc(x/y)); tested against exact '
        'rational arithmetic on every 3rd input',
        'the rounded-arithmetic range theorems (C19_heading_range_rounded, C19_yaw_range_rounded, C19_range_binary64) assume the '
        'hypotheses of Spec/Angle.lean `Rounding` (monotone rounding, exact on representable values, fmod closed); that binary64 '
        'round-to-nearest-even satisfies them is standard IEEE-754, NOT proved; the executable instance Angle.roundDouble is tied '
        'to NumPy by exact equality of the results on every generated input; for radians the spacing fact below 2*math.pi is a '
        'hypothesis of the theorem',
        'radian oracle uses the real pi (60 digits); the code reduces modulo the double 2*math.pi, whose relative error 3.9e-17 '
        'stays inside the stated tolerance for every magnitude',
        'radian range is judged in the reals: a double r is in [0, 2pi) iff r <= 2*math.pi',
        'driver conversion bits -> exact rational (Angle.ofBits) is checked against Python Fraction(float) on every 7th input']
    ctx.prove(MODULES)
    try:
        run(ctx, 12000 if ctx.thorough else 3000, 32 if ctx.thorough else 8)
    except fv.InfraError:
        if not ctx.proof_failures:
            raise
    code = fv.finish(ctx, 'proof', search)
    return code


def replay(ctx, path):
    obj = json.load(open(path))
    r = obj['input']
    unit = UNITS[r['unit']]
    xb = r['x_bits']
    xs = [from_bits(b) for b in (xb if isinstance(xb, list) else [xb])]
    run_unit(ctx, unit, [(r.get('category', 'replay'), x) for x in xs], with_id=False)
    return fv.finish(ctx, 'proof', None)
