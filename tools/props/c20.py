"""C20 - C++ data-version text conversion is a safe, exact round trip.

Real code: cxx/c20_harness.cc linked with $FE_REPO/src/point_one/fusion_engine/messages/data_version.cc, compiled on
every run with ASan + UBSan (cached in $FE_BUILD by the hash of every source that goes in); every string is parsed from
an exact-size heap allocation, a sanitizer report on one string is that string's answer `fault`.
Model: FeVerif/Model/DataVersion.lean through the driver commands dvparse / dvfmt / dvcmp / dvvalid / dvrt.
Oracle: the property statement itself, written here with a regular expression and Python tuples.
"""
import hashlib
import itertools
import json
import os
import re
import subprocess
import tempfile
import threading

import fv

MODULES = ['FeVerif.Props.C20']
ALPHABET = '0123456789.-+x '
SRC_REL = ['src/point_one/fusion_engine/messages/data_version.cc']
HDR_REL = ['src/point_one/fusion_engine/messages/data_version.h', 'src/point_one/fusion_engine/common/portability.h']
HARNESS = os.path.join(fv.VERIF, 'cxx', 'c20_harness.cc')
CXXFLAGS = ['-std=c++14', '-O1', '-g', '-fsanitize=address,undefined']
GRAMMAR = re.compile(rb'\A([0-9]+)\.([0-9]+)\Z')


# ---- the real code -------------------------------------------------------------------------------------
def build_harness():
    files = [HARNESS] + [os.path.join(fv.REPO, r) for r in SRC_REL + HDR_REL]
    h = hashlib.sha1()
    for f in files:
        if not os.path.exists(f):
            raise fv.InfraError('missing source ' + f)
        h.update(open(f, 'rb').read())
    h.update(' '.join(CXXFLAGS).encode())
    exe = os.path.join(fv.BUILD, 'c20_harness_' + h.hexdigest()[:16])
    if not os.path.exists(exe):
        tmp = '%s.%d.tmp' % (exe, os.getpid())
        cmd = ['clang++'] + CXXFLAGS + ['-I' + os.path.join(fv.REPO, 'src'), HARNESS] + \
              [os.path.join(fv.REPO, r) for r in SRC_REL] + ['-o', tmp]
        rc, out = fv.sh(cmd, timeout=600)
        if rc != 0:
            raise fv.InfraError('harness does not compile against %s:\n%s' % (fv.REPO, out[-3000:]))
        os.replace(tmp, exe)
    return exe


def _run_one(exe, lines, symbolize, out, idx):
    env = dict(os.environ)
    env['ASAN_OPTIONS'] = 'symbolize=%d:detect_leaks=0:allocator_may_return_null=1' % (1 if symbolize else 0)
    env['UBSAN_OPTIONS'] = 'halt_on_error=1:print_stacktrace=0'
    with tempfile.TemporaryFile() as err:
        p = subprocess.run([exe], input=('\n'.join(lines) + '\n').encode(), stdout=subprocess.PIPE, stderr=err,
                           env=env, timeout=3000)
        err.seek(0)
        e = err.read(1 << 22).decode('latin-1')
    ans = p.stdout.decode('latin-1').split('\n')
    if ans and ans[-1] == '':
        ans.pop()
    if p.returncode != 0 or len(ans) != len(lines):
        out[idx] = fv.InfraError('harness exit %d, %d answers for %d requests: %s' % (p.returncode, len(ans), len(lines), e[-500:]))
    else:
        out[idx] = (ans, e)


def run_harness(exe, lines, symbolize=False):
    """Answers (one per request) and the concatenated sanitizer output."""
    if not lines:
        return [], ''
    nproc = min(8, len(lines) // 4000 + 1)
    step = (len(lines) + nproc - 1) // nproc
    chunks = [lines[i:i + step] for i in range(0, len(lines), step)]
    out = [None] * len(chunks)
    ths = [threading.Thread(target=_run_one, args=(exe, ch, symbolize, out, i)) for i, ch in enumerate(chunks)]
    for t in ths:
        t.start()
    for t in ths:
        t.join()
    ans, err = [], ''
    for o in out:
        if isinstance(o, Exception):
            raise o
        if o is None:
            raise fv.InfraError('harness thread died')
        ans += o[0]
        err += o[1]
    return ans, err


def sanitizer_report(exe, line):
    """The sanitizer's own words for one faulting request (symbolized)."""
    try:
        _, err = run_harness(exe, [line], symbolize=True)
    except Exception as e:  # the report is decoration of the replay, never the verdict
        return ['(no report: %s)' % e]
    keep = [l.strip() for l in err.split('\n')
            if re.search(r'ERROR: AddressSanitizer|^(READ|WRITE) of size|is located|SUMMARY:|runtime error:|^\s+#[0-3] ', l)]
    return keep[:12]


def driver_parallel(ctx, lines, width=8):
    """ctx.driver keeps few lines in one process; the dvrt boxes are few but heavy, so spread them."""
    if len(lines) < 2 * width:
        return ctx.driver(lines)
    out = [None] * len(lines)
    errs = []

    def work(k):
        try:
            out[k::width] = ctx.driver(lines[k::width])
        except Exception as e:
            errs.append(e)
    ths = [threading.Thread(target=work, args=(k,)) for k in range(width)]
    for t in ths:
        t.start()
    for t in ths:
        t.join()
    if errs:
        raise errs[0]
    return out


# ---- the oracle: the property statement ----------------------------------------------------------------
def oracle_parse(b):
    """`<0-255>.<0-65535>` (decimal digits only, nothing else) -> that version, everything else -> invalid.
    255.65535 is the reserved invalid version itself."""
    m = GRAMMAR.match(b)
    if m:
        M, mi = int(m.group(1)), int(m.group(2))
        if M <= 255 and mi <= 65535 and (M, mi) != (255, 65535):
            return 'ok %d %d' % (M, mi)
    return 'invalid'


def classify_wrong_accept(b):
    if b[:1] in (b' ', b'\t', b'\n', b'\v', b'\f', b'\r'):
        return 'leading-whitespace-accepted'
    if GRAMMAR.match(b):
        return 'out-of-range-number-accepted'
    if re.match(rb'\A[0-9]+[^0-9.][0-9]+\Z', b):
        return 'separator-not-checked'
    if re.match(rb'\A[0-9]+\.[0-9]+', b):
        return 'trailing-characters-accepted'
    if b'-' in b or b'+' in b:
        return 'sign-accepted'
    if re.search(rb'[ \t\n\v\f\r]', b):
        return 'inner-whitespace-accepted'
    return 'non-grammar-text-accepted'


def oracle_ops(a, b):
    return ''.join('1' if x else '0' for x in (a == b, a != b, a < b, a > b, a <= b, a >= b))


OPS = ['==', '!=', '<', '>', '<=', '>=']
OPNAMES = ['eq', 'ne', 'lt', 'gt', 'le', 'ge']


def show(b):
    return repr(b)[1:]


# ---- input generation ----------------------------------------------------------------------------------
def gen_strings(ctx, maxlen, nrandom):
    rng = ctx.rng
    seen = set()
    out = []

    def add(b, kind):
        b = bytes(b)
        if b'\0' in b or b in seen:
            return
        seen.add(b)
        out.append(b)
        ctx.count('strings_' + kind)
    for b in NAMED:
        add(b, 'named')
    for n in range(0, maxlen + 1):
        for t in itertools.product(ALPHABET, repeat=n):
            add(''.join(t).encode(), 'exhaustive_len<=%d' % maxlen)
    # boundaries of the two ranges, of uint8/uint16, of long and of unsigned long
    nums = [0, 1, 9, 10, 99, 100, 254, 255, 256, 257, 260, 261, 511, 512, 999, 1000, 9999, 10000, 32767, 32768,
            65534, 65535, 65536, 65537, 65539, 99999, 100000, 131071, 2 ** 31 - 1, 2 ** 31, 2 ** 32 - 1, 2 ** 32,
            2 ** 32 + 5, 2 ** 63 - 1, 2 ** 63, 2 ** 63 + 7, 2 ** 64 - 1, 2 ** 64, 2 ** 64 + 5, 2 ** 64 + 255,
            2 ** 64 + 65535, 10 ** 30 + 3]
    for a in nums:
        for b in nums:
            add(b'%d.%d' % (a, b), 'boundary_numbers')
    for a in (0, 7, 255, 256):
        for b in (0, 3, 65535, 65536):
            for za in (1, 3, 25):
                for zb in (1, 2, 30):
                    add(b'0' * za + b'%d' % a + b'.' + b'0' * zb + b'%d' % b, 'leading_zeros')
    # one foreign byte (every value 1..255) before, between, after, and in place of the separator
    for c in range(1, 256):
        ch = bytes([c])
        for tpl in (ch + b'5.3', b'5' + ch + b'3', b'5.3' + ch, b'5' + ch + b'.3', b'5.' + ch + b'3', b'12' + ch, ch):
            add(tpl, 'single_byte_variants')
    # random: from the small alphabet, longer; grammar-shaped with long digit runs; arbitrary bytes
    for _ in range(nrandom):
        r = rng.random()
        if r < 0.4:
            n = rng.randrange(maxlen + 1, 24)
            add(''.join(rng.choice(ALPHABET) for _ in range(n)).encode(), 'random_alphabet')
        elif r < 0.8:
            def num():
                k = rng.choice([1, 1, 2, 3, 3, 4, 5, 5, 6, 10, 19, 20, 21, 40])
                s = ''.join(rng.choice('0123456789') for _ in range(k))
                if rng.random() < 0.3:
                    s = str(rng.choice([255, 256, 65535, 65536, rng.randrange(256), rng.randrange(65536)]))
                return s
            deco = [b'', b'', b'', b' ', b'-', b'+', b'x', b'.', b'\t', b'0']
            s = rng.choice(deco) + num().encode() + rng.choice([b'.', b'.', b'.', b'.', b'x', b' ', b'', b'..', b'-', b',']) + \
                rng.choice(deco) + num().encode() + rng.choice(deco)
            add(s, 'random_grammar_shaped')
        else:
            n = rng.randrange(1, 12)
            add(bytes(rng.choice([rng.randrange(1, 256), 0x30 + rng.randrange(10), 0x2e]) for _ in range(n)), 'random_bytes')
    return out


def gen_versions(ctx, n):
    rng = ctx.rng
    edge_m = [0, 1, 9, 10, 11, 99, 100, 101, 255, 256, 999, 1000, 1001, 9999, 10000, 10001, 32767, 32768, 65534, 65535]
    vs = set()
    for M in range(256):
        for m in edge_m:
            vs.add((M, m))
    while len(vs) < 256 * len(edge_m) + n:
        vs.add((rng.randrange(256), rng.randrange(65536)))
    return sorted(vs)


def gen_pairs(ctx, n):
    rng = ctx.rng
    Ms = [0, 1, 2, 127, 128, 254, 255]
    ms = [0, 1, 2, 255, 256, 257, 32767, 32768, 65534, 65535]
    grid = [(M, m) for M in Ms for m in ms]
    pairs = [(a, b) for a in grid for b in grid]
    for _ in range(n):
        a = (rng.randrange(256), rng.randrange(65536))
        k = rng.random()
        if k < 0.3:
            b = (a[0], rng.randrange(65536))
        elif k < 0.6:
            b = (rng.randrange(256), a[1])
        elif k < 0.7:
            b = (a[1] % 256, a[0])       # fields swapped: a minor-first comparison orders these the other way
        else:
            b = (rng.randrange(256), rng.randrange(65536))
        pairs.append((a, b))
    return pairs


NAMED = (b'5.3', b'007.0003', b'255.65534', b'255.65535', b'5', b'5x3', b' 5.3', b'+5.3', b'5.3 ')


def rng_small(ctx):
    return ctx.rng.random() < 0.5


# ---- judging -------------------------------------------------------------------------------------------
_sig_seen = {}


def first_of(sig, limit=1):
    """True for the first `limit` occurrences of a signature (fv.finish prints one per signature anyway)."""
    _sig_seen[sig] = _sig_seen.get(sig, 0) + 1
    return _sig_seen[sig] <= limit


def judge_parse(ctx, exe, b, impl, model, via='FromString(const char*)'):
    replay = {'kind': 'parse', 'hex': b.hex(), 'text': show(b)}
    want = oracle_parse(b)
    if model is not None and impl != model:
        ctx.disagree('%s(%s): compiled code %s, model %s' % (via, show(b), impl, model), replay)
    if impl == 'fault':
        ctx.count('violations_reads-outside-the-string')
        if not first_of('fault'):
            return
        rep = sanitizer_report(exe, ('p ' if 'char' in via else 's ') + (b.hex() or '-'))
        ctx.violation('C20/FromString/reads-outside-the-string',
                      '%s on %s (in a %d-byte heap block) -> sanitizer report: %s'
                      % (via, show(b), len(b) + 1, ' | '.join(rep[:4])), dict(replay, sanitizer=rep))
    elif impl != want:
        if want == 'invalid':
            sig = 'C20/FromString/' + classify_wrong_accept(b)
        elif impl == 'invalid':
            sig = 'C20/FromString/grammar-text-rejected'
        else:
            sig = 'C20/FromString/wrong-value'
        ctx.count('violations_' + sig.split('/')[-1])
        if first_of(sig, 5):
            ctx.violation(sig, '%s(%s) = %s, the grammar "<0-255>.<0-65535>" gives %s' % (via, show(b), impl, want), replay)


def judge_ops(ctx, a, b, i, mo, replay, note=''):
    ctx.cov['traces_validated_against_impl'] += 1
    if i != mo:
        ctx.disagree('operators on %s, %s%s: compiled code %s, model %s' % (a, b, note, i, mo), replay)
    want = oracle_ops(a, b)
    if i != want:
        badk = [k for k in range(6) if i[k] != want[k]] if len(i) == 6 else []
        sig = 'C20/operator-%s/not-lexicographic' % (OPNAMES[badk[0]] if badk else 'any')
        if first_of(sig, 5):
            ctx.violation(sig, '%d.%d {%s} %d.%d%s: got [== != < > <= >=] = %s, the (major, minor) order gives %s'
                          % (a + (' '.join(OPS[k] for k in badk),) + b + (note, i, want)), replay)


# reserved bytes a DataVersion copied out of received bytes can carry (the constructors always write 0xFF)
RESERVED = [0x00, 0x01, 0x7F, 0x80, 0xFE, 0xFF]
# environments of the harness: global grouping locales 1..4, user stream imbue()d with them 11..14
ENV_GLOBAL = [1, 2, 3, 4]
ENV_STREAM = [11, 12, 13, 14]
ENV_TEXT = {1: 'std::locale::global(): grouping "\\3", thousands \',\'', 2: 'std::locale::global(): grouping "\\3", thousands \'.\', decimal point \',\'',
            3: 'std::locale::global(): grouping "\\1", thousands \' \'', 4: 'std::locale::global(): grouping "\\2\\3", thousands "\'"',
            11: 'stream.imbue(): grouping "\\3", thousands \',\'', 12: 'stream.imbue(): grouping "\\3", thousands \'.\', decimal point \',\'',
            13: 'stream.imbue(): grouping "\\1", thousands \' \'', 14: 'stream.imbue(): grouping "\\2\\3", thousands "\'"'}
FLAGS_PLAIN = ['hex', 'oct', 'showpos', 'showbase-hex', 'upper-hex', 'boolalpha-sci', 'w3r']
FLAGS_WIDTH = ['w9r', 'w9l', 'w9i']


def wire(v, reserved):
    return '%02x%02x%02x%02x' % (reserved, v[0], v[1] & 255, v[1] >> 8)


def plain_text(v):
    """The text of a version as the property's grammar has it (and as the Lean model's toStr, checked version by version)."""
    return b'<invalid>' if v == (255, 65535) else b'%d.%d' % v


def unhex_answer(h):
    return b'' if h == '-' else bytes.fromhex(h) if re.fullmatch('([0-9a-f]{2})+', h) else None


def judge_format_crash(ctx, exe, what, request, v, replay):
    sig = 'C20/%s/crashes' % what
    ctx.count('violations_' + sig.split('/', 1)[1])
    if first_of(sig, 1):
        rep = sanitizer_report(exe, request)
        ctx.violation(sig, '%s of %d.%d (request "%s") does not return: sanitizer report: %s' % (what, v[0], v[1], request, ' | '.join(rep[:4])),
                      dict(replay, sanitizer=rep))


def judge_text(ctx, what, v, got_hex, env, flags, replay):
    """The text of a version does not depend on the locale or on the state of the caller's stream; with a field width
    the version text stands inside the padding."""
    got = unhex_answer(got_hex)
    want = plain_text(v)
    ctx.cov['traces_validated_against_impl'] += 1
    if got_hex == 'fault':
        judge_format_crash(ctx, build_harness(), what, replay.get('request', '?'), v, replay)
        return
    if got == want or (flags in FLAGS_WIDTH and got is not None and got.strip(b'*') == want):
        return
    if env:
        sig = 'C20/%s/text-depends-on-locale' % what
    else:
        sig = 'C20/%s/text-depends-on-stream-state' % what
    ctx.count('violations_' + sig.split('/', 1)[1])
    if first_of(sig, 3):
        back = oracle_parse(got) if got is not None else got_hex
        ctx.violation(sig, '%s of %d.%d%s%s = %s, the text of the version is %s (parsing it back by the grammar: %s)'
                      % (what, v[0], v[1], ' under ' + ENV_TEXT[env] if env else '', ' with %s set on the stream' % flags if flags else '',
                         show(got) if got is not None else got_hex, show(want), back), replay)


def run_environment(ctx, exe, deep, versions, strings, box_model):
    """Everything once more in the environments an application puts the code in: a global C++ locale with digit grouping
    (what std::locale::global(std::locale("")) installs under en_US / de_DE), a user stream imbue()d with one, stream
    flags left on the user's stream; and for objects copied out of wire bytes with any reserved byte."""
    rng = ctx.rng
    edge = [v for v in versions if v[1] in (0, 9, 10, 99, 100, 999, 1000, 1001, 9999, 10000, 32768, 65534, 65535)]
    rest = [v for v in versions if v not in set(edge)]
    pick = rng.sample(edge, min(len(edge), 1600 if deep else 400)) + rng.sample(rest, min(len(rest), 2400 if deep else 600))
    pick += [(1, 65535), (0, 1000), (255, 65535), (255, 65534), (100, 100)]
    reqs = []
    for k, v in enumerate(pick):
        g = ENV_GLOBAL[k % 4] if k >= 4 * 5 else None
        for env in (ENV_GLOBAL if g is None else [g]):            # the first few under every environment
            reqs.append(('ToString()', 'f', v, env, ''))
            reqs.append(('operator<<', 'o', v, env, ''))
        reqs.append(('operator<<', 'o', v, ENV_STREAM[(k // 4) % 4], ''))
        fl = (FLAGS_PLAIN + FLAGS_WIDTH)[k % 10]
        reqs.append(('operator<<', 'O', v, 0, fl))
        if k % 7 == 0:
            reqs.append(('operator<<', 'O', v, rng.choice(ENV_GLOBAL + ENV_STREAM), rng.choice(FLAGS_PLAIN + FLAGS_WIDTH)))

    def line(op, v, env, fl):
        return ('@%d ' % env if env else '') + '%s %d %d' % (op, v[0], v[1]) + (' ' + fl if fl else '')
    impl, _ = run_harness(exe, [line(op, v, env, fl) for _, op, v, env, fl in reqs])
    for (what, op, v, env, fl), i in zip(reqs, impl):
        ctx.case('env %s' % line(op, v, env, fl))
        ctx.count('texts_under_%s' % ('global_locale' if 1 <= env <= 4 else 'imbued_stream' if env else 'stream_flags'))
        judge_text(ctx, what, v, i, env, fl, {'kind': 'text', 'what': what, 'request': line(op, v, env, fl), 'major': v[0], 'minor': v[1],
                                              'environment': ENV_TEXT.get(env, 'classic'), 'flags': fl})

    # parsing does not depend on the C++ locale either
    sample = strings[::max(1, len(strings) // (4000 if deep else 1200))]
    lines = ['@%d p %s' % (ENV_GLOBAL[k % 4], b.hex() or '-') for k, b in enumerate(sample)]
    impl, _ = run_harness(exe, lines)
    for b, i in zip(sample, impl):
        ctx.count('parse_under_global_locale')
        if i != oracle_parse(b):
            judge_parse(ctx, exe, b, i, None, via='FromString(const char*) [global grouping locale]')

    # round trips in bulk: under the global locales, and for wire-built objects with each reserved byte; the answer must
    # be the one the model gave for the box (count, no failure, hash of all texts)
    boxes = sorted(box_model)
    some = [bx for bx in boxes if bx[0] != bx[1]] if not deep else []
    runs = [bx for bx in boxes if bx[0] == bx[1]]
    some += rng.sample(runs, min(len(runs), 64 if deep else 24))
    reqs = []
    for k, bx in enumerate(some):
        reqs.append((bx, ENV_GLOBAL[k % 4], None))
        reqs.append((bx, 0, (RESERVED + [rng.randrange(256)])[k % 7]))
        if k % 5 == 0:
            reqs.append((bx, ENV_GLOBAL[(k // 5) % 4], 0x00))
    impl, _ = run_harness(exe, [('@%d ' % env if env else '') + 'r %d %d %d %d' % bx + (' %d' % res if res is not None else '')
                                for bx, env, res in reqs])
    for (bx, env, res), i in zip(reqs, impl):
        n = (bx[1] - bx[0] + 1) * (bx[3] - bx[2] + 1)
        ctx.count('versions_round_tripped_in_bulk_environments', n)
        ctx.cov['evaluations'] += n
        ctx.cov['traces_validated_against_impl'] += n
        judge_box(ctx, bx, i, box_model[bx], env, res)

    # round trips of wire-built objects one by one: text, operator<< text, parsed value, and how the result compares
    reqs = [(v, r, 0) for k, v in enumerate(pick) for r in ((RESERVED + [rng.randrange(256)]) if k % 16 == 0 else [RESERVED[k % 5]])]
    reqs += [(v, rng.choice(RESERVED), rng.choice(ENV_GLOBAL)) for v in pick[::9]]
    impl, _ = run_harness(exe, [('@%d ' % env if env else '') + 'W ' + wire(v, r) for v, r, env in reqs])
    for (v, r, env), i in zip(reqs, impl):
        ctx.case('W %s %d %d' % (v, r, env))
        ctx.count('wire_objects_round_tripped')
        judge_wire(ctx, v, r, env, i)


def judge_box(ctx, bx, i, mo, env, res):
    replay = {'kind': 'box', 'box': list(bx)}
    note = ''
    if env:
        replay['env'] = env
        note += ' under ' + ENV_TEXT[env]
    if res is not None:
        replay['reserved'] = res
        note += ' (objects copied out of wire bytes, reserved byte 0x%02X)' % res
    n = (bx[1] - bx[0] + 1) * (bx[3] - bx[2] + 1)
    parts = i.split(' ')
    if i == 'fault':
        ctx.violation('C20/round-trip/reads-outside-the-string', 'sanitizer report inside box %s%s' % (bx, note), replay)
    elif len(parts) != 4 or parts[0] != str(n) or parts[1] != '0':
        nbad = parts[1] if len(parts) > 1 else '?'
        first = parts[3] if len(parts) > 3 else None
        why = ''
        if first and re.fullmatch(r'\d+\.\d+', first):
            fM, fm = (int(x) for x in first.split('.'))
            req = [('@%d ' % env if env else '') + 'W ' + wire((fM, fm), 0xFF if res is None else res)]
            try:
                why = ' [%s -> %s]' % (req[0], run_harness(build_harness(), req)[0][0])
            except Exception:
                pass
        ctx.violation('C20/round-trip/version-changed',
                      'majors %d-%d minors %d-%d%s: %s of %d versions do not survive ToString/FromString (field-wise, or by operator==), first %s%s'
                      % (bx + (note, nbad, n, first, why)), dict(replay, first=first))
    elif mo is not None and i != mo:
        ctx.violation('C20/ToString/text-depends-on-environment' if env else 'C20/ToString/text-depends-on-reserved-byte',
                      'majors %d-%d minors %d-%d%s: all versions round-trip but the texts differ from the model\'s (count, bad, hash, first): "%s" vs "%s"'
                      % (bx + (note, i, mo)), replay)


def judge_wire(ctx, v, r, env, i):
    replay = {'kind': 'wire', 'major': v[0], 'minor': v[1], 'reserved': r, 'env': env}
    note = 'DataVersion copied out of the wire bytes %s (reserved 0x%02X, version %d.%d)%s' % (
        wire(v, r), r, v[0], v[1], ' under ' + ENV_TEXT[env] if env else '')
    ctx.cov['traces_validated_against_impl'] += 1
    parts = i.split(' ')
    if i == 'fault':
        judge_format_crash(ctx, build_harness(), 'ToString()/FromString() round trip', ('@%d ' % env if env else '') + 'W ' + wire(v, r), v, replay)
        return
    if len(parts) != 5:
        raise fv.InfraError('harness answer to W: ' + i)
    text, otext, back, valid, bits = parts
    want_text = plain_text(v)
    want_back = 'invalid' if v == (255, 65535) else 'ok:%d:%d' % v
    if unhex_answer(text) != want_text:
        judge_text(ctx, 'ToString()', v, text, env, '', dict(replay, request='W ' + wire(v, r)))
    if unhex_answer(otext) != want_text:
        judge_text(ctx, 'operator<<', v, otext, env, '', dict(replay, request='W ' + wire(v, r)))
    if valid != ('0' if v == (255, 65535) else '1'):
        ctx.violation('C20/IsValid', '%s: IsValid() = %s' % (note, valid), replay)
    if back != want_back:
        if first_of('C20/round-trip/version-changed', 3):
            ctx.violation('C20/round-trip/version-changed', '%s: FromString(ToString(v) = %s) = %s' % (note, show(unhex_answer(text) or b'?'), back), replay)
    elif bits != '1111111':
        names = ['back == v', 'v == back', '!(back != v)', '!(back < v)', '!(back > v)', 'back <= v', 'back >= v']
        bad = [names[k] for k in range(min(7, len(bits))) if bits[k] != '1']
        ctx.count('violations_round-trip-result-compares-unequal')
        if first_of('C20/round-trip/result-compares-unequal', 3):
            ctx.violation('C20/round-trip/result-compares-unequal',
                          '%s: back = FromString(ToString(v)) has the same major and minor, but these are false: %s' % (note, '; '.join(bad)), replay)


def run(ctx, deep):
    exe = build_harness()
    maxlen = 5 if deep else 4
    # ---- parsing ----
    strings = gen_strings(ctx, maxlen, 60000 if deep else 6000)
    hl = ['p ' + (b.hex() or '-') for b in strings]
    ml = ['dvparse ' + (b.hex() or '-') for b in strings]
    # the std::string overload on a sample
    sample = strings[::max(1, len(strings) // 3000)]
    hl += ['s ' + (b.hex() or '-') for b in sample]
    impl, _ = run_harness(exe, hl)
    model = ctx.driver(ml)
    for b, i, m in zip(strings, impl, model):
        ctx.case('p ' + b.hex(), nontrivial=(i != 'invalid' or GRAMMAR.match(b) is not None or b[:1].isdigit()))
        ctx.count('parse_' + i.split(' ')[0])
        ctx.cov['traces_validated_against_impl'] += 1
        if i != m or i != oracle_parse(b):
            judge_parse(ctx, exe, b, i, m)
    for b, i in zip(sample, impl[len(strings):]):
        ctx.count('parse_via_std_string')
        if i != oracle_parse(b):
            judge_parse(ctx, exe, b, i, None, via='FromString(std::string)')
    for b in NAMED:
        ctx.sample({'text': show(b), 'FromString': impl[strings.index(b)]})

    # ---- strtol itself, and FromString as it was before the fix (kept verbatim in the harness), against their models:
    #      this is what ties the model of strtol's blank/sign/clamp/stop behaviour and of the memory layout to libc ----
    old = [b for b in strings if len(b) <= 3 or b'\t' in b or len(b) > 16][:9000] + list(NAMED)
    hl = ['q ' + (b.hex() or '-') for b in old]
    ml = ['dvparse0 ' + (b.hex() or '-') for b in old]
    tl = []
    for b in strings[:40000:3] + strings[40000:]:
        st = 0 if rng_small(ctx) else ctx.rng.randrange(len(b) + 1)
        tl.append((b, st))
    hl += ['t %s %d' % (b.hex() or '-', st) for b, st in tl]
    ml += ['dvstrtol %s %d' % (b.hex() or '-', st) for b, st in tl]
    impl, _ = run_harness(exe, hl)
    model = ctx.driver(ml)
    for k, (i, m) in enumerate(zip(impl, model)):
        ctx.cov['traces_validated_against_impl'] += 1
        if k < len(old):
            ctx.count('before_fix_function_' + i.split(' ')[0])
        else:
            ctx.count('strtol_calls')
        if i != m:
            ctx.disagree('%s: compiled code %s, model %s' % (hl[k], i, m), {'kind': 'raw', 'harness': hl[k], 'driver': ml[k]})

    # ---- formatting and the round trip, version by version (concrete replays) ----
    versions = gen_versions(ctx, 20000 if deep else 3000)
    hl = []
    ml = []
    for M, m in versions:
        hl += ['f %d %d' % (M, m), 'o %d %d' % (M, m), 'v %d %d' % (M, m)]
        ml += ['dvfmt %d %d' % (M, m), 'dvvalid %d %d' % (M, m)]
    impl, _ = run_harness(exe, hl)
    model = ctx.driver(ml)
    texts = []
    for k, (M, m) in enumerate(versions):
        f, o, v = impl[3 * k:3 * k + 3]
        mf, mv = model[2 * k:2 * k + 2]
        replay = {'kind': 'version', 'major': M, 'minor': m}
        ctx.count('versions_formatted')
        if f != mf or o != mf or v != mv:
            ctx.disagree('version %d.%d: ToString %s, operator<< %s, IsValid %s; model text %s, valid %s'
                         % (M, m, f, o, v, mf, mv), replay)
        for what, op, ans in (('ToString()', 'f', f), ('operator<<', 'o', o)):
            if ans == 'fault':
                judge_format_crash(ctx, exe, what, '%s %d %d' % (op, M, m), (M, m), replay)
        valid_want = '0' if (M, m) == (255, 65535) else '1'
        if v != valid_want:
            ctx.violation('C20/IsValid', 'IsValid(%d.%d) = %s' % (M, m, v), replay)
        if o != f:
            ctx.violation('C20/operator<<-differs-from-ToString', 'version %d.%d: %s vs %s' % (M, m, o, f), replay)
        texts.append(b'' if f == '-' else bytes.fromhex(f) if re.fullmatch('([0-9a-f]{2})+', f) else None)
    todo = [(vm, t) for vm, t in zip(versions, texts) if t is not None and b'\0' not in t]
    impl, _ = run_harness(exe, ['p ' + (t.hex() or '-') for _, t in todo])
    model = ctx.driver(['dvparse ' + (t.hex() or '-') for _, t in todo])
    for ((M, m), t), i, mo in zip(todo, impl, model):
        replay = {'kind': 'version', 'major': M, 'minor': m}
        ctx.case('rt %d %d' % (M, m))
        ctx.cov['traces_validated_against_impl'] += 1
        want = 'invalid' if (M, m) == (255, 65535) else 'ok %d %d' % (M, m)
        if i != mo:
            ctx.disagree('FromString(ToString(%d.%d) = %s): compiled code %s, model %s' % (M, m, show(t), i, mo), replay)
        if i == 'fault':
            ctx.violation('C20/round-trip/reads-outside-the-string',
                          'FromString(ToString(%d.%d) = %s) -> sanitizer report' % (M, m, show(t)), replay)
        elif i != want:
            ctx.violation('C20/round-trip/version-changed', 'FromString(ToString(%d.%d) = %s) = %s' % (M, m, show(t), i), replay)

    # ---- the round trip in bulk (inside harness and model; compared by count, failures and text hash) ----
    rng = ctx.rng
    boxes = []
    if deep:
        for M in range(256):
            for lo in range(0, 65536, 8192):
                boxes.append((M, M, lo, lo + 8191))
    else:
        for M in range(256):
            lo = rng.randrange(0, 65536 - 96)
            boxes.append((M, M, lo, lo + 95))
        boxes += [(0, 255, 0, 12), (0, 255, 65520, 65535), (0, 255, 9990, 10010), (0, 255, 95, 105), (0, 255, 995, 1005)]
    impl, _ = run_harness(exe, ['r %d %d %d %d' % b for b in boxes])
    model = driver_parallel(ctx, ['dvrt %d %d %d %d' % b for b in boxes])
    box_model = dict(zip(boxes, model))
    for bx, i, mo in zip(boxes, impl, model):
        replay = {'kind': 'box', 'box': list(bx)}
        n = (bx[1] - bx[0] + 1) * (bx[3] - bx[2] + 1)
        ctx.count('versions_round_tripped_in_bulk', n)
        ctx.cov['evaluations'] += n
        ctx.cov['traces_validated_against_impl'] += n
        if i != mo:
            ctx.disagree('round trips of majors %d-%d minors %d-%d: compiled code "%s", model "%s"' % (bx + (i, mo)), replay)
        parts = i.split(' ')
        if i == 'fault':
            ctx.violation('C20/round-trip/reads-outside-the-string', 'sanitizer report inside box %s' % (bx,), replay)
        elif len(parts) != 4 or parts[0] != str(n) or parts[1] != '0':
            nbad = parts[1] if len(parts) > 1 else '?'
            first = parts[3] if len(parts) > 3 else None
            ctx.violation('C20/round-trip/version-changed',
                          'majors %d-%d minors %d-%d: %s of %d versions do not survive ToString/FromString, first %s'
                          % (bx + (nbad, n, first)), dict(replay, first=first))

    # ---- operators ----
    pairs = gen_pairs(ctx, 20000 if deep else 3000)
    impl, _ = run_harness(exe, ['c %d %d %d %d' % (a + b) for a, b in pairs])
    model = ctx.driver(['dvcmp %d %d %d %d' % (a + b) for a, b in pairs])
    cmp_model = {}
    for (a, b), i, mo in zip(pairs, impl, model):
        replay = {'kind': 'compare', 'a': list(a), 'b': list(b)}
        ctx.case('c %s %s' % (a, b))
        ctx.count('operator_pairs')
        cmp_model[(a, b)] = mo
        judge_ops(ctx, a, b, i, mo, replay)

    # ---- the same operators on objects as a receiver gets them: copied out of wire bytes, any reserved byte ----
    wp = []
    for a, b in pairs[::max(1, len(pairs) // (6000 if deep else 1500))]:
        wp.append((a, b))
        wp.append((a, a))                 # the same version twice: only the reserved bytes can differ
    wreq = []
    for a, b in wp:
        ra, rb = rng.choice(RESERVED + [rng.randrange(256)]), rng.choice(RESERVED + [rng.randrange(256)])
        if rng.random() < 0.5:
            rb = 0xFF                     # against a version built in code
        wreq.append((a, ra, b, rb))
    impl, _ = run_harness(exe, ['C %s %s' % (wire(a, ra), wire(b, rb)) for a, ra, b, rb in wreq])
    missing = sorted({(a, b) for a, _, b, _ in wreq if (a, b) not in cmp_model})
    for (a, b), mo in zip(missing, ctx.driver(['dvcmp %d %d %d %d' % (a + b) for a, b in missing])):
        cmp_model[(a, b)] = mo
    for (a, ra, b, rb), i in zip(wreq, impl):
        replay = {'kind': 'compare', 'a': list(a), 'b': list(b), 'reserved': [ra, rb]}
        ctx.case('C %s %s %d %d' % (a, b, ra, rb))
        ctx.count('operator_pairs_from_wire_bytes')
        judge_ops(ctx, a, b, i, cmp_model[(a, b)], replay, ' (objects copied out of wire bytes, reserved bytes 0x%02X / 0x%02X)' % (ra, rb))
    # ---- the environment: locales, stream state, reserved bytes ----
    run_environment(ctx, exe, deep, versions, strings, box_model)
    ctx.sample({'compare': '1.65535 vs 2.0', '== != < > <= >=': oracle_ops((1, 65535), (2, 0))})


def search(ctx):
    run(ctx, True)


def check(ctx):
    ctx.cov['rule'] = ('strings: every string of length <= 4 (quick) / 5 (thorough) over {0-9 . - + x space}; "<a>.<b>" for a, b in a '
                       'table of boundary numbers (range ends, 2^8, 2^16, 2^31, 2^32, 2^63, 2^64 and neighbours, 31 digits); '
                       'leading zeros; every byte value 1..255 placed before / between / after / instead of the separator; random '
                       'longer strings (alphabet, grammar-shaped with digit runs up to 40 and decorations, arbitrary bytes). Each is '
                       'parsed by the compiled FromString from a malloc(len+1) block under ASan+UBSan, by the Lean model, and by the '
                       'grammar regex. versions: all 256 majors x 20 boundary minors + random ones individually (ToString, operator<<, '
                       'IsValid, FromString(ToString)), plus boxes of versions round-tripped in bulk inside harness and model '
                       '(quick: 96 consecutive minors per major at a random offset + boundary bands; thorough: all 256 x 65536). '
                       'operators: all pairs of a 70-point boundary grid + random pairs (same major / same minor / swapped fields), '
                       'and again on DataVersion objects copied out of 4 wire bytes with reserved bytes 0x00/0x01/0x7F/0x80/0xFE/0xFF/random '
                       '(equal versions with different reserved bytes included). environments: ToString / operator<< texts, FromString and bulk '
                       'round trips repeated with a global C++ locale whose numpunct facet groups digits (4 facets built in the harness: '
                       'grouping 3, 1, 2-3; separators , . space apostrophe; other decimal points), with the user stream imbue()d with them, '
                       'and with flags left on the user stream (hex, oct, showpos, showbase, uppercase, scientific, width/fill/adjust: the '
                       'version text must stand unbroken inside the padding); wire-built objects round-tripped one by one and in bulk with '
                       'each reserved byte, the result compared with the original by all of == != < > <= >=. '
                       'non-trivial string = accepted, of the grammar shape, or starting with a digit; distinct = distinct text / version / pair')
    ctx.assumptions += [
        'libc strtol is modelled by its contract (isspace skip, optional sign, digits, stops at the first non-digit, clamps to long); '
        'the model/compiled-code comparison under ASan on the generated strings is the evidence for it',
        'a C string is modelled as a list of non-NUL bytes in an allocation of exactly length+1 bytes (the harness allocates exactly that); '
        'the "C" locale is assumed for isspace',
        'leading zeros are read as admitted by "<0-255>.<0-65535>" ("007.0003" is 7.3); "255.65535" denotes the reserved invalid version',
        'objects "copied out of wire bytes" are built with memcpy on this (little-endian) host: reserved, major, minor low, minor high',
        'memory safety of the compiled code is validated by ASan/UBSan on the generated inputs; the universally quantified statement '
        'is about the model']
    ctx.prove(MODULES)
    try:
        run(ctx, ctx.thorough)
    except fv.InfraError:
        if not ctx.proof_failures:
            raise
    return fv.finish(ctx, 'proof', search)


def replay(ctx, path):
    obj = json.load(open(path))
    r = obj['input']
    exe = build_harness()
    kind = r.get('kind')
    if kind == 'parse':
        b = bytes.fromhex(r['hex'])
        impl, _ = run_harness(exe, ['p ' + (b.hex() or '-')])
        model = ctx.driver(['dvparse ' + (b.hex() or '-')])
        print('FromString(%s): compiled code %s, model %s, grammar %s' % (show(b), impl[0], model[0], oracle_parse(b)))
        if impl[0] != model[0] or impl[0] != oracle_parse(b):
            judge_parse(ctx, exe, b, impl[0], model[0])
    elif kind == 'text':
        v = (r['major'], r['minor'])
        impl, _ = run_harness(exe, [r['request']])
        model = ctx.driver(['dvfmt %d %d' % v])
        print('%s: compiled code %s = %s, model text %s' % (r['request'], impl[0], show(unhex_answer(impl[0]) or b'?'), model[0]))
        if model[0] != (plain_text(v).hex() or '-'):
            ctx.disagree('text of %d.%d: model %s, grammar %s' % (v + (model[0], plain_text(v).hex())), r)
        m = re.match(r'@(\d+) ', r['request'])
        judge_text(ctx, r['what'], v, impl[0], int(m.group(1)) if m else 0, r.get('flags', ''), r)
    elif kind == 'wire':
        v = (r['major'], r['minor'])
        line = ('@%d ' % r['env'] if r.get('env') else '') + 'W ' + wire(v, r['reserved'])
        impl, _ = run_harness(exe, [line])
        print('%s: %s' % (line, impl[0]))
        judge_wire(ctx, v, r['reserved'], r.get('env', 0), impl[0])
    elif kind == 'box' and ('env' in r or 'reserved' in r):
        bx = tuple(r['box'])
        env, res = r.get('env', 0), r.get('reserved')
        line = ('@%d ' % env if env else '') + 'r %d %d %d %d' % bx + (' %d' % res if res is not None else '')
        impl, _ = run_harness(exe, [line])
        model = ctx.driver(['dvrt %d %d %d %d' % bx])
        print('%s: compiled code "%s", model "%s"' % (line, impl[0], model[0]))
        judge_box(ctx, bx, impl[0], model[0], env, res)
    elif kind in ('version', 'box'):
        bx = (r['major'], r['major'], r['minor'], r['minor']) if kind == 'version' else tuple(r['box'])
        impl, _ = run_harness(exe, ['r %d %d %d %d' % bx])
        model = ctx.driver(['dvrt %d %d %d %d' % bx])
        print('round trip of box %s: compiled code "%s", model "%s"' % (bx, impl[0], model[0]))
        if impl[0] != model[0]:
            ctx.disagree('round trip of %s: %s vs %s' % (bx, impl[0], model[0]), r)
        parts = impl[0].split(' ')
        if impl[0] == 'fault':
            ctx.violation('C20/round-trip/reads-outside-the-string', 'sanitizer report inside box %s' % (bx,), r)
        elif len(parts) != 4 or parts[1] != '0':
            ctx.violation('C20/round-trip/version-changed', 'box %s: "%s"' % (bx, impl[0]), r)
        if kind == 'version':
            impl, _ = run_harness(exe, ['f %d %d' % (r['major'], r['minor']), 'v %d %d' % (r['major'], r['minor'])])
            print('ToString -> %s, IsValid -> %s' % (impl[0], impl[1]))
    elif kind == 'compare':
        a, b = tuple(r['a']), tuple(r['b'])
        if 'reserved' in r:
            impl, _ = run_harness(exe, ['C %s %s' % (wire(a, r['reserved'][0]), wire(b, r['reserved'][1]))])
            print('objects copied out of wire bytes, reserved bytes %s' % r['reserved'])
        else:
            impl, _ = run_harness(exe, ['c %d %d %d %d' % (a + b)])
        model = ctx.driver(['dvcmp %d %d %d %d' % (a + b)])
        print('operators on %s, %s: compiled code %s, model %s, lexicographic %s' % (a, b, impl[0], model[0], oracle_ops(a, b)))
        if impl[0] != model[0]:
            ctx.disagree('operators on %s, %s: %s vs %s' % (a, b, impl[0], model[0]), r)
        if impl[0] != oracle_ops(a, b):
            ctx.violation('C20/operator/not-lexicographic', 'got %s, want %s' % (impl[0], oracle_ops(a, b)), r)
    elif kind == 'raw':
        impl, _ = run_harness(exe, [r['harness']])
        model = ctx.driver([r['driver']])
        print('%s: compiled code %s, model %s' % (r['harness'], impl[0], model[0]))
        if impl[0] != model[0]:
            ctx.disagree('%s: %s vs %s' % (r['harness'], impl[0], model[0]), r)
    else:
        raise fv.InfraError('replay file without a known input kind (this is a no-failing-input record)')
    return fv.finish(ctx, 'proof', None)
