"""Running the real FusionEngineDecoder and canonicalising what it does (shared by C04, C05, C06, C07)."""
import struct

import canon


WARN_SPELLINGS = ['none', 'likely', 'all', True, False, 'enum:NONE', 'enum:LIKELY', 'enum:ALL', 'default']


def decoder_options(rng):
    """Constructor options that must not influence which messages are returned (the property's scan has no such parameter)."""
    return {'warn_on_error': rng.choice(WARN_SPELLINGS), 'warn_on_unrecognized': rng.random() < 0.5, 'warn_on_gap': rng.random() < 0.5}


def run_decoder(chunks, max_payload, return_bytes=True, return_offset=True, use_callback=False, as_ints=False, typed_callbacks=None,
                form='bytes', opts=None, late=None, check_arg=False, own=False):
    """Returns (per-call canonical strings, flat list of result dicts, error or None).
    as_ints: single-byte chunks are passed as `int` (the documented alternative input form).
    typed_callbacks: dict type -> list, filled by callbacks registered for that specific message type.
    form: how a chunk is handed over: 'bytes'; 'ba_wipe' = a fresh bytearray that the caller zeroes and empties right after
    the call; 'ba_reuse' = one receive bytearray refilled in place for every call (the decoder must have copied what it keeps);
    'bytearray' = a fresh bytearray per call that the caller keeps; 'ba_clear_extend' = one receive bytearray, clear() + extend()
    before every call (a socket read loop); 'memoryview' / 'mv_bytearray' = a view of a bytes / bytearray object, released after
    the call; 'mv_recv_into' = one fixed-size receive bytearray, the first n bytes overwritten and passed as memoryview(rx)[:n].
    check_arg: what was passed must be unchanged after the call, and every object the caller kept must still be unchanged after
    all calls (error text 'ArgumentModified: ...').
    late: callbacks registered while the decoder is in use: a list of dicts {'at': ['call', i] (before the i-th on_data call;
    i == len(chunks): after the last) or ['msg', n] (from inside a callback, while the n-th accepted message is delivered),
    'type': message type number or None}; each gets 'sink' (list of the argument tuples received) and 'n0' (number of messages
    delivered before the registration).
    own: results are caller-owned VALUES.  Every returned header / payload / raw-bytes object is snapshotted when its call
    returns (d['header_snap'], d['contents_snap'], d['raw'], d['offset']) and kept; all objects returned so far are read again
    after every later call (payload objects: after every later call that returned something, the call after their own, and the
    last) and must still show their snapshot ('ResultChanged: ...'); no mutable object may be handed out twice - for two
    messages, in two roles, or be the argument object itself ('ResultAliased: ...')."""
    from fusion_engine_client.parsers.decoder import FusionEngineDecoder
    from fusion_engine_client.messages import MessageHeader
    import logging
    logging.disable(logging.CRITICAL)       # the warnings themselves are not observed; their side effects on decoding are
    kw = {'warn_on_error': 'none'}
    if opts:
        w = opts.get('warn_on_error', 'none')
        if isinstance(w, str) and w.startswith('enum:'):
            w = FusionEngineDecoder.WarnOnError[w[5:]]
        kw = {'warn_on_unrecognized': bool(opts.get('warn_on_unrecognized')), 'warn_on_gap': bool(opts.get('warn_on_gap'))}
        if w != 'default':
            kw['warn_on_error'] = w
    dec = FusionEngineDecoder(max_payload_len_bytes=max_payload, return_bytes=return_bytes,
                              return_offset=return_offset, **kw)
    # other decoder objects alive at the same time, constructed afterwards with other limits and used in between:
    # decoders must be independent of each other
    others = [FusionEngineDecoder(max_payload_len_bytes=m2, warn_on_error='none') for m2 in (1 << 24, 0, 8)] \
        if (opts or {}).get('second_decoder', True) else []
    seen_lists = []
    seen_ids = set()
    cb = []
    if use_callback:
        dec.add_callback(None, lambda *a: cb.append(a))
    if typed_callbacks is not None:
        from fusion_engine_client.messages import MessageType
        for t, sink in typed_callbacks.items():
            dec.add_callback(MessageType(t, raise_on_unrecognized=False), (lambda s: (lambda *a: s.append(a)))(sink))
    calls = []
    flat = []
    rx = bytearray()

    def register(L, n0):
        from fusion_engine_client.messages import MessageType
        L['sink'] = []
        L['n0'] = n0
        t = L.get('type')
        dec.add_callback(None if t is None else MessageType(t, raise_on_unrecognized=False),
                         (lambda s: (lambda *a: s.append(a)))(L['sink']))

    delivered = {'n': 0}
    if late and any(L['at'][0] == 'msg' for L in late):
        def counter(*a):
            n = delivered['n']
            delivered['n'] = n + 1
            for L in late:
                if L['at'][0] == 'msg' and L['at'][1] == n and 'sink' not in L:
                    register(L, n)
        dec.add_callback(None, counter)
    kept = []           # (object the caller still holds, what it held when it was passed)
    held_results = []   # own: [message number, call index, header object, payload object, raw object or None, snapshots...]
    fixed = bytearray(max([len(c) for c in chunks] + [1]) + 3) if form == 'mv_recv_into' else None
    for ci, ch in enumerate(chunks):
        for L in late or []:
            if L['at'][0] == 'call' and L['at'][1] == ci and 'sink' not in L:
                register(L, len(flat))
        try:
            if as_ints and len(ch) == 1:
                arg = ch[0]
            elif form == 'ba_wipe':
                arg = bytearray(ch)
            elif form == 'ba_reuse':
                rx[:] = ch
                arg = rx
            elif form == 'bytearray':
                arg = bytearray(ch)
                kept.append((arg, bytes(ch)))
            elif form == 'ba_clear_extend':
                rx.clear()
                rx.extend(ch)
                arg = rx
            elif form == 'memoryview':
                arg = memoryview(bytes(ch))
            elif form == 'mv_bytearray':
                held = bytearray(ch)
                kept.append((held, bytes(ch)))
                arg = memoryview(held)
            elif form == 'mv_recv_into':
                fixed[:len(ch)] = ch
                arg = memoryview(fixed)[:len(ch)]
            else:
                arg = bytes(ch)
            arg_obj = arg
            res = dec.on_data(arg)
            if check_arg and not (as_ints and len(ch) == 1):
                now = bytes(fixed[:len(ch)]) if form == 'mv_recv_into' else bytes(arg)
                if now != bytes(ch):
                    return calls, flat, 'ArgumentModified: on_data() changed the %s the caller passed (form %s): %d bytes %s before ' \
                                        'the call, %d bytes %s after' % (type(arg).__name__, form, len(ch), bytes(ch).hex()[:80],
                                                                        len(now), now.hex()[:80]), cb
            if isinstance(arg, memoryview):
                arg.release()               # the caller's view ends with the call; the decoder must have copied what it keeps
            for k, o in enumerate(others):
                o.on_data(b'\x2e\x31\x00' if k % 2 else b'\x07')
            if id(res) in seen_ids or any(r == ('caller-owned',) for r in res):     # (seen_lists keeps them alive: ids are unique)
                return calls, flat, 'SharedResult: on_data returned the very list object an earlier call returned (a caller ' \
                                    'extending its result in place changes what later calls return)', cb
            seen_lists.append(res)
            seen_ids.add(id(res))
            if form == 'ba_wipe' and isinstance(arg, bytearray):
                for i in range(len(arg)):
                    arg[i] = 0x2e
                del arg[:]
        except BaseException as e:  # the property says "never raises"
            return calls, flat, '%s: %s' % (type(e).__name__, e), cb
        pairs = []
        for r in res:
            hdr, contents = r[0], r[1]
            d = {'header': hdr, 'contents': contents}
            i = 2
            if return_bytes:
                d['raw'] = bytes(r[i])
                i += 1
            if return_offset:
                d['offset'] = r[i]
            flat.append(d)
            if return_bytes and return_offset:
                pairs.append('%d:%d' % (d['offset'], len(d['raw'])))
            d['header_snap'] = header_fields(hdr)
            if own:
                d['contents_snap'] = repr(canon.canon(contents))
                held_results.append((len(flat) - 1, ci, hdr, contents, r[2] if return_bytes else None, d['header_snap'],
                                     d['contents_snap'], d.get('raw')))
        if own:
            err = _ownership(held_results, ci, len(res), arg_obj, ci == len(chunks) - 1)
            if err:
                return calls, flat, err, cb
        if isinstance(res, list):
            res.append(('caller-owned',))        # the caller owns the returned list and may extend it
        calls.append('%s|%d|%d|%d' % (','.join(pairs), len(dec._buffer), 0 if dec._header is None else 1,
                                      dec._bytes_processed))
        if check_arg:
            for obj, was in kept:
                if bytes(obj) != was:
                    return calls, flat, 'ArgumentModified: a bytearray passed to an earlier on_data() call was changed by call %d ' \
                                        '(form %s): %d bytes %s when passed, now %d bytes %s' % (
                                            ci, form, len(was), was.hex()[:80], len(obj), bytes(obj).hex()[:80]), cb
    for L in late or []:
        if 'sink' not in L:
            if L['at'][0] == 'call':
                register(L, len(flat))          # after the last call
            else:
                L['sink'], L['n0'] = None, None  # fewer messages than that were delivered: never registered
    return calls, flat, None, cb


_IMMUTABLE = (bytes, str, int, float, bool, tuple, frozenset, type(None))


def _ownership(held, ci, n_new, arg, last):
    """own=True of run_decoder: aliasing between the objects handed out, and re-reading of everything handed out so far."""
    seen = {}
    for k, (num, call, hdr, contents, raw, hs, cs, rs) in enumerate(held):
        new = k >= len(held) - n_new
        for role, obj in (('header', hdr), ('payload', contents), ('raw bytes', raw)):
            if obj is None or isinstance(obj, _IMMUTABLE):
                continue
            if new:
                if obj is arg:
                    return 'ResultAliased: the %s of message %d (returned by call %d) is the very object the caller passed to ' \
                           'on_data()' % (role, num, call)
                if id(obj) in seen:
                    n2, c2, r2 = seen[id(obj)]
                    return 'ResultAliased: the %s of message %d (returned by call %d) is the same %s object as the %s of message ' \
                           '%d (returned by call %d): one object handed out twice' % (role, num, call, type(obj).__name__, r2, n2, c2)
            seen[id(obj)] = (num, call, role)
        when = 'when call %d returned' % call if new else 'after call %d' % ci
        try:
            now = header_fields(hdr)
        except Exception as e:
            now = '%s: %s' % (type(e).__name__, e)
        if now != hs:
            return 'ResultChanged: header of message %d (returned by call %d) read %s %s: (reserved, crc, protocol, version, ' \
                   'type, sequence, size, source) = %s, but %s right after its own call%s' % (
                       num, call, 'again' if not new else 'a second time', when, now, hs, '' if not new else ' (snapshot)')
        if raw is not None and not isinstance(raw, bytes):
            if len(raw) != len(rs) or raw != rs:
                return 'ResultChanged: raw bytes of message %d (returned by call %d, a %s) read again %s: %d bytes %s..., but %d ' \
                       'bytes %s... when its call returned' % (num, call, type(raw).__name__, when, len(raw), bytes(raw[:24]).hex(),
                                                               len(rs), rs[:24].hex())
        if not new and (n_new or last or call == ci - 1) and not isinstance(contents, _IMMUTABLE):
            try:
                now = repr(canon.canon(contents))
            except Exception as e:
                now = '%s: %s' % (type(e).__name__, e)
            if now != cs:
                return 'ResultChanged: payload object of message %d (returned by call %d) read again %s differs from what it ' \
                       'held when its call returned' % (num, call, when)
    return None


def header_fields(h):
    return (int(h.reserved), int(h.crc), int(h.protocol_version), int(h.message_version), int(h.message_type),
            int(h.sequence_number), int(h.payload_size_bytes), int(h.source_identifier))


def header_fields_from_raw(raw):
    s0, s1, res, crc, pv, mv, mt, seq, size, src = struct.unpack_from('<BBHIBBHIII', raw, 0)
    return (res, crc, pv, mv, mt, seq, size, src)


def expected_contents(raw):
    """What the payload of a framed message must decode to: the class's own unpack of exactly the payload
    bytes, or the raw payload bytes if the type has no class or the payload does not deserialise."""
    from fusion_engine_client.messages import message_type_to_class, MessageType
    mt = struct.unpack_from('<H', raw, 10)[0]
    payload = bytes(raw[24:])
    cls = None
    for k, v in message_type_to_class.items():
        if int(k) == mt:
            cls = v
    if cls is None:
        return canon.canon(payload)
    try:
        o = cls()
        o.unpack(buffer=payload, offset=0)
        return canon.canon(o)
    except Exception:
        return canon.canon(payload)
