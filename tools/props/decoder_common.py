"""Running the real FusionEngineDecoder and canonicalising what it does (shared by C04, C05, C06, C07)."""
import struct

import canon


WARN_SPELLINGS = ['none', 'likely', 'all', True, False, 'enum:NONE', 'enum:LIKELY', 'enum:ALL', 'default']


def decoder_options(rng):
    """Constructor options that must not influence which messages are returned (the property's scan has no such parameter)."""
    return {'warn_on_error': rng.choice(WARN_SPELLINGS), 'warn_on_unrecognized': rng.random() < 0.5, 'warn_on_gap': rng.random() < 0.5}


def run_decoder(chunks, max_payload, return_bytes=True, return_offset=True, use_callback=False, as_ints=False, typed_callbacks=None,
                form='bytes', opts=None):
    """Returns (per-call canonical strings, flat list of result dicts, error or None).
    as_ints: single-byte chunks are passed as `int` (the documented alternative input form).
    typed_callbacks: dict type -> list, filled by callbacks registered for that specific message type.
    form: how a chunk is handed over: 'bytes'; 'ba_wipe' = a fresh bytearray that the caller zeroes and empties right after
    the call; 'ba_reuse' = one receive bytearray refilled in place for every call (the decoder must have copied what it keeps)."""
    from fusion_engine_client.parsers.decoder import FusionEngineDecoder
    from fusion_engine_client.messages import MessageHeader
    import logging
    logging.disable(logging.CRITICAL)       # the warnings themselves are not observed; their side effects on decoding are
    kw = {'warn_on_error': 'none'}
    if opts:
        w = opts.get('warn_on_error', 'none')
        if isinstance(w, str) and w.startswith('enum:'):
            w = FusionEngineDecoder.WarnOnError[w[5:]]
        kw = {'warn_on_unrecognized': bool(opts.get('warn_on_unrecognized')), 'warn_on_gap': bool(opts.get('warn_on_gap'))}
        if w != 'default':
            kw['warn_on_error'] = w
    dec = FusionEngineDecoder(max_payload_len_bytes=max_payload, return_bytes=return_bytes,
                              return_offset=return_offset, **kw)
    # other decoder objects alive at the same time, constructed afterwards with other limits and used in between:
    # decoders must be independent of each other
    others = [FusionEngineDecoder(max_payload_len_bytes=m2, warn_on_error='none') for m2 in (1 << 24, 0, 8)] \
        if (opts or {}).get('second_decoder', True) else []
    seen_lists = []
    cb = []
    if use_callback:
        dec.add_callback(None, lambda *a: cb.append(a))
    if typed_callbacks is not None:
        from fusion_engine_client.messages import MessageType
        for t, sink in typed_callbacks.items():
            dec.add_callback(MessageType(t, raise_on_unrecognized=False), (lambda s: (lambda *a: s.append(a)))(sink))
    calls = []
    flat = []
    rx = bytearray()
    for ch in chunks:
        try:
            if as_ints and len(ch) == 1:
                arg = ch[0]
            elif form == 'ba_wipe':
                arg = bytearray(ch)
            elif form == 'ba_reuse':
                rx[:] = ch
                arg = rx
            else:
                arg = bytes(ch)
            res = dec.on_data(arg)
            for k, o in enumerate(others):
                o.on_data(b'\x2e\x31\x00' if k % 2 else b'\x07')
            if any(res is l for l in seen_lists) or any(r == ('caller-owned',) for r in res):
                return calls, flat, 'SharedResult: on_data returned the very list object an earlier call returned (a caller ' \
                                    'extending its result in place changes what later calls return)', cb
            seen_lists.append(res)
            if form == 'ba_wipe':
                for i in range(len(arg)):
                    arg[i] = 0x2e
                del arg[:]
        except BaseException as e:  # the property says "never raises"
            return calls, flat, '%s: %s' % (type(e).__name__, e), cb
        pairs = []
        for r in res:
            hdr, contents = r[0], r[1]
            d = {'header': hdr, 'contents': contents}
            i = 2
            if return_bytes:
                d['raw'] = bytes(r[i])
                i += 1
            if return_offset:
                d['offset'] = r[i]
            flat.append(d)
            if return_bytes and return_offset:
                pairs.append('%d:%d' % (d['offset'], len(d['raw'])))
        if isinstance(res, list):
            res.append(('caller-owned',))        # the caller owns the returned list and may extend it
        calls.append('%s|%d|%d|%d' % (','.join(pairs), len(dec._buffer), 0 if dec._header is None else 1,
                                      dec._bytes_processed))
    return calls, flat, None, cb


def header_fields(h):
    return (int(h.reserved), int(h.crc), int(h.protocol_version), int(h.message_version), int(h.message_type),
            int(h.sequence_number), int(h.payload_size_bytes), int(h.source_identifier))


def header_fields_from_raw(raw):
    s0, s1, res, crc, pv, mv, mt, seq, size, src = struct.unpack_from('<BBHIBBHIII', raw, 0)
    return (res, crc, pv, mv, mt, seq, size, src)


def expected_contents(raw):
    """What the payload of a framed message must decode to: the class's own unpack of exactly the payload
    bytes, or the raw payload bytes if the type has no class or the payload does not deserialise."""
    from fusion_engine_client.messages import message_type_to_class, MessageType
    mt = struct.unpack_from('<H', raw, 10)[0]
    payload = bytes(raw[24:])
    cls = None
    for k, v in message_type_to_class.items():
        if int(k) == mt:
            cls = v
    if cls is None:
        return canon.canon(payload)
    try:
        o = cls()
        o.unpack(buffer=payload, offset=0)
        return canon.canon(o)
    except Exception:
        return canon.canon(payload)
