"""Running the real indexer / reader on generated files (shared by C08, C09, C10, C11, C18)."""
import math
import os
import shutil
import struct
import tempfile
import zlib

import numpy as np

_tmp = None


def tmpdir():
    global _tmp
    if _tmp is None:
        import atexit
        _tmp = tempfile.mkdtemp(prefix='feverif_')
        atexit.register(lambda: shutil.rmtree(_tmp, ignore_errors=True))
    return _tmp


def write_log(data, name='t.p1log'):
    path = os.path.join(tmpdir(), name)
    with open(path, 'wb') as f:
        f.write(data)
    p1i = os.path.splitext(path)[0] + '.p1i'
    if os.path.exists(p1i):
        os.remove(p1i)
    return path


def rebind(R, M):
    from fusion_engine_client.parsers import fast_indexer
    fast_indexer._READ_SIZE_BYTES = R
    fast_indexer._MAX_FE_MSG_SIZE_BYTES = M


def run_indexer(path, nt, save_index=False):
    """Returns ('ok', offsets, types, times(None|int), ordinals) or ('raise', text)."""
    from fusion_engine_client.parsers import fast_indexer
    try:
        idx = fast_indexer.fast_generate_index(path, force_reindex=True, save_index=save_index, num_threads=nt)
    except BaseException as e:
        return ('raise', '%s: %s' % (type(e).__name__, e))
    return ('ok',) + index_arrays(idx)


def index_arrays(idx):
    times = [None if (t != t) else int(t) for t in idx.time.tolist()]
    return ([int(x) for x in idx.offset.tolist()], [int(x) for x in idx.type.tolist()], times,
            [int(x) for x in idx.message_index.tolist()])


def expected_time(msg):
    """Whole-second P1 time of a framed message (or None), by the class's own unpack of exactly its payload."""
    from fusion_engine_client.messages import message_type_to_class
    mt, = struct.unpack_from('<H', msg, 10)
    ver = msg[9]
    cls = None
    for k, v in message_type_to_class.items():
        if int(k) == mt:
            cls = v
    if cls is None:
        return None
    try:
        o = cls()
        o.unpack(buffer=bytes(msg[24:]), offset=0, message_version=ver)
        t = o.get_p1_time()
        if t is None:
            return None
        s = float(t.seconds)
        if s != s:
            return None
        if s >= 0xFFFFFFFF:
            # the index has a 32-bit seconds field whose all-ones value means "no time": a time that does not fit has none
            return None
        return int(math.floor(s))
    except Exception:
        return None


def crc_ok(data, o, n):
    if o + n > len(data) or n < 24:
        return False
    size, = struct.unpack_from('<I', data, o + 16)
    crc, = struct.unpack_from('<I', data, o + 4)
    return data[o:o + 2] == b'\x2e\x31' and 24 + size == n and zlib.crc32(data[o + 8:o + n]) == crc


def valid_at(data, p):
    """Length of the CRC-valid message starting at p (over the whole file), or None."""
    if p + 24 > len(data) or data[p:p + 2] != b'\x2e\x31':
        return None
    size, = struct.unpack_from('<I', data, p + 16)
    if size > (1 << 24) or p + 24 + size > len(data):
        return None
    return 24 + size if crc_ok(data, p, 24 + size) else None


def straddling_candidates(data, accepted):
    """CRC-valid candidates that start strictly inside an accepted message and end beyond it."""
    res = []
    for o, n in accepted:
        i = data.find(b'\x2e\x31', o + 1, o + n)
        while i != -1:
            k = valid_at(data, i)
            if k is not None and i + k > o + n:
                res.append((i, k))
            i = data.find(b'\x2e\x31', i + 1, o + n)
    return res


def boundary_time_messages(rng, seq0=0):
    """CRC-valid Pose messages whose raw timestamp fields (seconds, nanoseconds) sit at the edges of the wire format:
    non-canonical nanosecond fields (>= 10^9), the largest representable second counts, the all-ones markers."""
    import gen
    from fusion_engine_client.messages import PoseMessage
    base = bytearray(PoseMessage().pack())
    out = []
    for k, (sec, ns) in enumerate([(0xFFFFFFFE, 0xFFFFFFFE), (0xFFFFFFFE, 999999999), (0xFFFFFFFE, 0), (0xFFFFFFFD, 1500000000),
                                   (0, 0xFFFFFFFE), (0xFFFFFFFF, 0), (5, 0xFFFFFFFF), (0xFFFFFFFD, 3000000000), (0x7FFFFFFF, 999999999),
                                   (0x80000000, 0), (1, 1000000000)]):
        p = bytearray(base)
        struct.pack_into('<II', p, 0, sec, ns)
        out.append(gen.frame(10000, bytes(p), seq0 + k))
    rng.shuffle(out)
    return out


class verbose_logging:
    """Everything the package logs - including its deepest trace levels - is switched on (and discarded) inside this block:
    what a function returns must not depend on the log level. Forked indexer workers inherit the setting."""

    def __enter__(self):
        import logging
        self.lg = logging.getLogger('point_one')
        self.saved = (self.lg.level, self.lg.propagate, logging.root.manager.disable)
        logging.disable(logging.NOTSET)
        self.h = logging.NullHandler()
        self.lg.addHandler(self.h)
        self.lg.setLevel(1)
        self.lg.propagate = False
        return self

    def __exit__(self, *a):
        import logging
        self.lg.removeHandler(self.h)
        self.lg.setLevel(self.saved[0])
        self.lg.propagate = self.saved[1]
        logging.disable(self.saved[2])
        return False


# ---------------------------------------------------------------------------------------------------------------------------
# The P1 time of a message, read from its wire bytes (added for C08; nothing above depends on it).
#
# Every FusionEngine payload defines its P1 time in one of four ways.  The table below is written from the message
# definitions (the leading fields of each payload struct), per message type number; it does not ask the classes.
#   'p1'       the payload starts with the P1 timestamp (seconds u32, nanoseconds u32)
#   'details'  the payload starts with a MeasurementDetails block: measurement_time (8 bytes), measurement_time_source (u8),
#              data_source (u8), 2 reserved bytes, p1_time (8 bytes).  The P1 time is measurement_time when the source says
#              that measurement_time IS in P1 time (source == 1), otherwise the p1_time field
#   'input'    the same block in a measurement *sent to* the device: the p1_time field of an input is disregarded, so the
#              message has a P1 time only when measurement_time is in P1 time
#   None       the message has no P1 time
WIRE_TIME_FAMILY = {
    10000: 'p1', 10001: 'p1', 10002: 'p1', 10003: 'p1', 10004: 'p1', 10005: 'p1', 10500: 'p1',
    11000: 'p1', 11135: 'p1', 11136: 'p1', 12000: 'p1', 12010: 'p1', 12011: 'p1',
    11002: 'details', 11005: 'details', 11006: 'details', 11101: 'details', 11102: 'details',
    11123: 'details', 11124: 'details', 11125: 'details', 11126: 'details',
    11004: 'input', 11103: 'input', 11104: 'input', 11105: 'input', 11106: 'input',
}
SOURCE_P1_TIME = 1
_U32_INVALID = 0xFFFFFFFF


def _wire_timestamp(payload, off):
    """Seconds (float, as the format defines them: seconds + nanoseconds * 1e-9) of the timestamp at off, None if unset."""
    if off + 8 > len(payload):
        return None
    sec, ns = struct.unpack_from('<II', payload, off)
    if sec == _U32_INVALID or ns == _U32_INVALID:
        return None
    return sec + ns * 1e-9


def wire_time_family(msg_type):
    return WIRE_TIME_FAMILY.get(int(msg_type))


def registered_types_missing_from_wire_table():
    """Registered classes that carry a time attribute but whose type is not in WIRE_TIME_FAMILY (or the reverse): the table
    has to be brought up to date before the time column can be judged."""
    from fusion_engine_client.messages import message_type_to_class
    bad = []
    for k, c in message_type_to_class.items():
        try:
            o = c()
        except Exception:
            continue
        has = hasattr(o, 'p1_time') or hasattr(o, 'details')
        if has != (int(k) in WIRE_TIME_FAMILY):
            bad.append((int(k), c.__name__))
    return bad


def payload_decodes(msg):
    """True iff the registered class of this framed message parses exactly its payload bytes without raising (None: no class)."""
    from fusion_engine_client.messages import message_type_to_class
    mt, = struct.unpack_from('<H', msg, 10)
    cls = None
    for k, v in message_type_to_class.items():
        if int(k) == mt:
            cls = v
    if cls is None:
        return None
    try:
        cls().unpack(buffer=bytes(msg[24:]), offset=0, message_version=msg[9])
        return True
    except Exception:
        return False


def wire_p1_time(msg):
    """Whole-second P1 time of a framed message (or None) from its bytes and WIRE_TIME_FAMILY alone.  Whether the payload is
    decodable at all is a separate question (payload_decodes): an undecodable message has no time."""
    mt, = struct.unpack_from('<H', msg, 10)
    fam = WIRE_TIME_FAMILY.get(mt)
    payload = bytes(msg[24:])
    if fam is None:
        return None
    if fam == 'p1':
        t = _wire_timestamp(payload, 0)
    else:
        if len(payload) < 20:
            return None
        if payload[8] == SOURCE_P1_TIME:
            t = _wire_timestamp(payload, 0)
        elif fam == 'details':
            t = _wire_timestamp(payload, 12)
        else:
            t = None
    if t is None or t >= _U32_INVALID:     # the index's 32-bit seconds field: all-ones means "none", larger does not fit
        return None
    return int(math.floor(t))


def wire_expected_time(msg):
    """The index time the property demands, from the wire bytes: None for unknown types / undecodable payloads."""
    if wire_time_family(struct.unpack_from('<H', msg, 10)[0]) is None:
        return None
    if not payload_decodes(msg):
        return None
    return wire_p1_time(msg)


TIME_SOURCES = (0, 1, 2, 3, 4)          # every SystemTimeSource value: INVALID, P1_TIME, TIMESTAMPED_ON_RECEPTION, SENDER_SYSTEM_TIME, GPS_TIME


def time_family_messages(rng, per_class=None, seq0=0, extra_sources=(5, 255)):
    """CRC-valid messages of EVERY registered class, grouped by how the class defines its P1 time, with the time fields
    written straight into the default payload's bytes:
      - 'details'/'input' classes: every measurement_time_source (plus out-of-range values) x measurement_time unset/set x
        p1_time unset / same whole second as measurement_time (other fraction) / a different whole second (earlier and later)
      - 'p1' classes: p1_time unset / set / fraction just below the next second
      - classes without a time: the default payload, and one whose first 20 bytes look like a populated details block
    Returns a list of (description, framed message).  per_class: keep at most that many random variants per class."""
    import gen
    out = []
    seq = seq0

    def ts(t):
        if t is None:
            return struct.pack('<II', _U32_INVALID, _U32_INVALID)
        return struct.pack('<II', int(t), int(round((t - int(t)) * 1e9)))

    for mt, name, payload, ver in gen.class_payloads():
        fam = WIRE_TIME_FAMILY.get(mt)
        variants = []
        base = rng.choice([3.0, 100.0, 4000.0, 86400.0 * 7 * 2000]) + rng.randrange(0, 50)
        if fam in ('details', 'input') and len(payload) >= 20:
            for src in TIME_SOURCES + tuple(extra_sources):
                for mtime in (None, base + 3.25):
                    p1s = [None, base + 3.75, base + 0.25, base + 7.5] if mtime is not None else [None, base + 0.25]
                    for p1 in p1s:
                        p = bytearray(payload)
                        p[0:8] = ts(mtime)
                        p[8] = src
                        p[12:20] = ts(p1)
                        variants.append(('%s source=%d measurement_time=%s p1_time=%s' % (name, src, mtime, p1), bytes(p)))
        elif fam == 'p1' and len(payload) >= 8:
            for p1 in (None, base + 0.5, base + 0.999999999, 0.0):
                p = bytearray(payload)
                p[0:8] = ts(p1)
                variants.append(('%s p1_time=%s' % (name, p1), bytes(p)))
        else:
            variants.append(('%s (default payload)' % name, payload))
            if len(payload) >= 20:
                p = bytearray(payload)
                p[0:8] = ts(base + 3.25)
                p[8] = SOURCE_P1_TIME
                p[12:20] = ts(base + 0.25)
                variants.append(('%s (first 20 bytes patterned like a details block)' % name, bytes(p)))
        if per_class is not None and len(variants) > per_class:
            variants = rng.sample(variants, per_class)
        for d, p in variants:
            out.append((d, gen.frame(mt, p, seq, 0, ver)))
            seq += 1
    return out
