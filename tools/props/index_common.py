"""Running the real indexer / reader on generated files (shared by C08, C09, C10, C11, C18)."""
import math
import os
import shutil
import struct
import tempfile
import zlib

import numpy as np

_tmp = None


def tmpdir():
    global _tmp
    if _tmp is None:
        import atexit
        _tmp = tempfile.mkdtemp(prefix='feverif_')
        atexit.register(lambda: shutil.rmtree(_tmp, ignore_errors=True))
    return _tmp


def write_log(data, name='t.p1log'):
    path = os.path.join(tmpdir(), name)
    with open(path, 'wb') as f:
        f.write(data)
    p1i = os.path.splitext(path)[0] + '.p1i'
    if os.path.exists(p1i):
        os.remove(p1i)
    return path


def rebind(R, M):
    from fusion_engine_client.parsers import fast_indexer
    fast_indexer._READ_SIZE_BYTES = R
    fast_indexer._MAX_FE_MSG_SIZE_BYTES = M


def run_indexer(path, nt, save_index=False):
    """Returns ('ok', offsets, types, times(None|int), ordinals) or ('raise', text)."""
    from fusion_engine_client.parsers import fast_indexer
    try:
        idx = fast_indexer.fast_generate_index(path, force_reindex=True, save_index=save_index, num_threads=nt)
    except BaseException as e:
        return ('raise', '%s: %s' % (type(e).__name__, e))
    return ('ok',) + index_arrays(idx)


def index_arrays(idx):
    times = [None if (t != t) else int(t) for t in idx.time.tolist()]
    return ([int(x) for x in idx.offset.tolist()], [int(x) for x in idx.type.tolist()], times,
            [int(x) for x in idx.message_index.tolist()])


def expected_time(msg):
    """Whole-second P1 time of a framed message (or None), by the class's own unpack of exactly its payload."""
    from fusion_engine_client.messages import message_type_to_class
    mt, = struct.unpack_from('<H', msg, 10)
    ver = msg[9]
    cls = None
    for k, v in message_type_to_class.items():
        if int(k) == mt:
            cls = v
    if cls is None:
        return None
    try:
        o = cls()
        o.unpack(buffer=bytes(msg[24:]), offset=0, message_version=ver)
        t = o.get_p1_time()
        if t is None:
            return None
        s = float(t.seconds)
        if s != s:
            return None
        if s >= 0xFFFFFFFF:
            # the index has a 32-bit seconds field whose all-ones value means "no time": a time that does not fit has none
            return None
        return int(math.floor(s))
    except Exception:
        return None


def crc_ok(data, o, n):
    if o + n > len(data) or n < 24:
        return False
    size, = struct.unpack_from('<I', data, o + 16)
    crc, = struct.unpack_from('<I', data, o + 4)
    return data[o:o + 2] == b'\x2e\x31' and 24 + size == n and zlib.crc32(data[o + 8:o + n]) == crc


def valid_at(data, p):
    """Length of the CRC-valid message starting at p (over the whole file), or None."""
    if p + 24 > len(data) or data[p:p + 2] != b'\x2e\x31':
        return None
    size, = struct.unpack_from('<I', data, p + 16)
    if size > (1 << 24) or p + 24 + size > len(data):
        return None
    return 24 + size if crc_ok(data, p, 24 + size) else None


def straddling_candidates(data, accepted):
    """CRC-valid candidates that start strictly inside an accepted message and end beyond it."""
    res = []
    for o, n in accepted:
        i = data.find(b'\x2e\x31', o + 1, o + n)
        while i != -1:
            k = valid_at(data, i)
            if k is not None and i + k > o + n:
                res.append((i, k))
            i = data.find(b'\x2e\x31', i + 1, o + n)
    return res


def boundary_time_messages(rng, seq0=0):
    """CRC-valid Pose messages whose raw timestamp fields (seconds, nanoseconds) sit at the edges of the wire format:
    non-canonical nanosecond fields (>= 10^9), the largest representable second counts, the all-ones markers."""
    import gen
    from fusion_engine_client.messages import PoseMessage
    base = bytearray(PoseMessage().pack())
    out = []
    for k, (sec, ns) in enumerate([(0xFFFFFFFE, 0xFFFFFFFE), (0xFFFFFFFE, 999999999), (0xFFFFFFFE, 0), (0xFFFFFFFD, 1500000000),
                                   (0, 0xFFFFFFFE), (0xFFFFFFFF, 0), (5, 0xFFFFFFFF), (0xFFFFFFFD, 3000000000), (0x7FFFFFFF, 999999999),
                                   (0x80000000, 0), (1, 1000000000)]):
        p = bytearray(base)
        struct.pack_into('<II', p, 0, sec, ns)
        out.append(gen.frame(10000, bytes(p), seq0 + k))
    rng.shuffle(out)
    return out


class verbose_logging:
    """Everything the package logs - including its deepest trace levels - is switched on (and discarded) inside this block:
    what a function returns must not depend on the log level. Forked indexer workers inherit the setting."""

    def __enter__(self):
        import logging
        self.lg = logging.getLogger('point_one')
        self.saved = (self.lg.level, self.lg.propagate, logging.root.manager.disable)
        logging.disable(logging.NOTSET)
        self.h = logging.NullHandler()
        self.lg.addHandler(self.h)
        self.lg.setLevel(1)
        self.lg.propagate = False
        return self

    def __exit__(self, *a):
        import logging
        self.lg.removeHandler(self.h)
        self.lg.setLevel(self.saved[0])
        self.lg.propagate = self.saved[1]
        logging.disable(self.saved[2])
        return False
