"""Generated logs for the reader properties (C10, C11) and helpers to describe them to the Lean model."""
import struct

import gen

NS = 1000000000


def to_ns(x, exact=False):
    """Seconds (float) -> integer nanoseconds. `exact`: by rational arithmetic on the double's exact value (x * 1e9 in floating
    point is only exact up to 2^53 ns = about 104 days; P1 / GPS-like times of 10^9 s need the exact form)."""
    x = float(x)
    if exact:
        from fractions import Fraction
        return int(round(Fraction(x) * NS))
    return int(round(x * NS))


def timed_payloads():
    """(type, payload-builder(t seconds float)) for a few classes that carry P1 time, and untimed ones."""
    from fusion_engine_client.messages import PoseMessage, GNSSInfoMessage, EventNotificationMessage, VersionInfoMessage, Timestamp

    def pose(t):
        m = PoseMessage()
        m.p1_time = Timestamp(t)
        return 10000, bytes(m.pack()), PoseMessage.get_version()

    def gnss(t):
        m = GNSSInfoMessage()
        m.p1_time = Timestamp(t)
        return 10001, bytes(m.pack()), GNSSInfoMessage.get_version()

    def event(_):
        m = EventNotificationMessage()
        return 13004, bytes(m.pack()), EventNotificationMessage.get_version()

    def version(_):
        m = VersionInfoMessage()
        return 13003, bytes(m.pack()), VersionInfoMessage.get_version()

    return [pose, gnss], [event, version]


def make_log(rng, n, junk=True, sources=(0,), untimed_first=None, t_start=None, step_choices=(0, 0.25, 0.5, 1, 1, 2, 3.75),
             wrappers=True, t_max=None):
    """A log of n messages: timed (non-decreasing P1 times, multiples of 0.25 s), untimed, unknown types.
    t_max: times stop advancing there (for logs that start just below the largest representable P1 time)."""
    timed, untimed = timed_payloads()
    t = t_start if t_start is not None else rng.choice([0.0, 1.0, 2.5, 10.0, 100.25])
    parts = []
    seq = 0
    for i in range(n):
        k = rng.random()
        src = rng.choice(sources)
        if untimed_first is not None and i < untimed_first:
            k = 0.9
        if k < 0.55:
            ty, p, v = rng.choice(timed)(t)
            t += rng.choice(step_choices)
            if t_max is not None and t > t_max:
                t = t_max
        elif k < 0.6:   # timed class with an invalid (NaN) P1 time
            ty, p, v = rng.choice(timed)(float('nan'))
        elif k < 0.9:
            ty, p, v = rng.choice(untimed)(None)
        else:
            ty, p, v = rng.choice([9, 2999]), bytes(rng.randrange(256) for _ in range(rng.choice([0, 3]))), 0
        parts.append(gen.frame(ty, p, seq, src, v))
        seq += 1
        if wrappers and rng.random() < 0.12:
            # a wrapper message whose payload holds a complete CRC-valid message: one message of the file, not two
            inner = gen.frame(rng.choice([9, 10000]), bytes(rng.randrange(256) for _ in range(rng.choice([0, 3]))), seq + 500, src)
            parts.append(gen.frame(13120, bytes(8) + inner, seq, src))
            seq += 1
        if junk and rng.random() < 0.2:
            parts.append(bytes(rng.randrange(256) for _ in range(rng.choice([1, 5, 30]))))
    return b''.join(parts)


def unfiltered(path, exact=False):
    """The unfiltered read of the real reader: list of dicts (offset, size, type, src, timeNs).
    exact: see to_ns()."""
    from fusion_engine_client.parsers import MixedLogReader
    r = MixedLogReader(path, num_threads=1, return_header=True, return_payload=True, return_bytes=True, return_offset=True,
                       return_message_index=True)
    out = []
    for header, payload, data, off, idx in r:
        t = None
        if payload is not None:
            try:
                pt = payload.get_p1_time()
                if pt is not None and float(pt) == float(pt):
                    t = to_ns(pt, exact)
            except Exception:
                t = None
        out.append({'offset': int(off), 'size': len(data), 'type': int(header.message_type), 'src': int(header.source_identifier),
                    'timeNs': t, 'ordinal': int(idx)})
    r.input_file.close()
    return out


def log_text(msgs):
    return ';'.join('%d:%d:%d:%d:%s' % (m['offset'], m['size'], m['type'], m['src'], 'n' if m['timeNs'] is None else m['timeNs'])
                    for m in msgs) or '-'


def range_text(tr, sep=',', exact=False):
    """A real TimeRange object (after its constructor's normalisation) -> model text. exact: see to_ns()."""
    if tr is None:
        return '-'

    def f(x):
        if x is None:
            return 'n'
        x = float(x)
        if x != x:
            return 'n'
        return str(to_ns(x, exact))
    return sep.join(['a' if tr.absolute else 'r', f(tr.start), f(tr.end), f(tr.p1_t0)])
