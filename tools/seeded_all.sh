#!/bin/bash
# Re-evaluate every filed seeded change (seeded/<ID>-<n>) against the current checks, N at a time, each on a private copy of lean/.
# usage: tools/seeded_all.sh [parallelism] [ID ...]
cd "$(dirname "$0")/.."
par=${1:-6}; shift
ids="$@"
[ -n "$ids" ] || ids=$(ls seeded | grep -E '^C[0-9]{2}-[0-9]+$' | sort)
one() {
  s=$1; c=${s%%-*}
  demo=$(ls seeded/$s/demo*.py seeded/$s/demo*.cc 2>/dev/null | grep -v -E 'common|harness|core' | head -1)
  python3 tools/seeded_eval.py $c seeded/$s/patch.diff $demo --name $s --isolate > /tmp/seeded_all_$s.txt 2>&1
  python3 - <<PY
import json
try:
    m=json.load(open('seeded/$s/meta.json'))
    print('$s confirmed=%s detected=%s exit=%s %s' % (m.get('confirmed'), m.get('detected'), m['check']['exit'], (m['check']['output'] or [''])[0][:120]))
except Exception as e: print('$s ERROR', e)
PY
}
export -f one
echo $ids | tr ' ' '\n' | xargs -P $par -I{} bash -c 'one {}'
