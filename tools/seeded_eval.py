#!/usr/bin/env python3
"""Evaluate a seeded breaking change: confirm it (tests still pass, demo fails with / passes without), run the check
against it in a scratch worktree, and file it under /verif/seeded/<id>-<n>/.

usage: seeded_eval.py <PROP> <patch.diff> <demo file> [--needs "text"] [--demo-cmd "cmd with {wt} {demo}"]
"""
import argparse
import json
import os
import re
import shutil
import subprocess
import sys
import tempfile
import time

VERIF = os.path.dirname(os.path.dirname(os.path.abspath(__file__)))


def sh(cmd, cwd=None, env=None, timeout=1800):
    p = subprocess.run(cmd, shell=True, cwd=cwd, env=env, stdout=subprocess.PIPE, stderr=subprocess.STDOUT, text=True, timeout=timeout)
    return p.returncode, p.stdout


def demo_cmd(demo, wt, template):
    if template:
        return template.format(wt=wt, demo=demo, out=os.path.dirname(demo))
    if demo.endswith('.py'):
        # the worktree is passed as an argument: demonstrations that take one would otherwise look at their seeder's default tree
        return 'cd %s && PYTHONPATH=%s/python /venv/bin/python %s %s' % (wt, wt, demo, wt)
    if demo.endswith('.cc') or demo.endswith('.cpp'):
        exe = os.path.join(tempfile.gettempdir(), 'seeded_demo_%d' % os.getpid())
        srcs = ' '.join(os.path.join(wt, 'src/point_one', x) for x in
                        ['fusion_engine/messages/data_version.cc', 'fusion_engine/messages/crc.cc',
                         'fusion_engine/parsers/fusion_engine_framer.cc', 'rtcm/rtcm_framer.cc', 'fusion_engine/common/logging.cc']
                        if os.path.exists(os.path.join(wt, 'src/point_one', x)))
        return ('clang++ -std=c++14 -g -fsanitize=address,undefined -fno-sanitize-recover=all -I%s/src -I%s %s %s -o %s && %s'
                % (wt, os.path.dirname(demo), demo, srcs, exe, exe))
    return demo


def main():
    ap = argparse.ArgumentParser()
    ap.add_argument('prop')
    ap.add_argument('patch')
    ap.add_argument('demo')
    ap.add_argument('--needs', default='')
    ap.add_argument('--breaks', default='')
    ap.add_argument('--demo-cmd', default='')
    ap.add_argument('--tier', default='quick')
    ap.add_argument('--name', default='')
    ap.add_argument('--isolate', action='store_true', help='run the check on a private copy of lean/ and build/ (parallel-safe)')
    a = ap.parse_args()
    iso = None
    wt = tempfile.mkdtemp(prefix='seeded_wt_')
    os.rmdir(wt)
    rc, out = sh('git -C /repo worktree add -q %s HEAD' % wt)
    assert rc == 0, out
    meta = {'property': a.prop, 'needs_to_manifest': a.needs, 'breaks': a.breaks, 'ran': []}
    try:
        dcmd = demo_cmd(os.path.abspath(a.demo), wt, a.demo_cmd)
        rc0, o0 = sh(dcmd)
        if rc0 != 0 and not a.demo_cmd and a.demo.endswith('.py'):
            # some demonstrations take the worktree path as their argument, or want to run from their own directory
            for alt in ('cd %s && PYTHONPATH=%s/python /venv/bin/python %s' % (wt, wt, os.path.abspath(a.demo)),
                        'cd %s && PYTHONPATH=%s/python /venv/bin/python %s %s' % (os.path.dirname(os.path.abspath(a.demo)), wt,
                                                                                  os.path.abspath(a.demo), wt)):
                rc0, o0 = sh(alt)
                if rc0 == 0:
                    dcmd = alt
                    break
        meta['ran'].append({'cmd': 'demo on unchanged tree', 'exit': rc0})
        rc, out = sh('git -C %s apply %s' % (wt, os.path.abspath(a.patch)))
        if rc != 0:      # /repo has moved on since the change was written (later fix: commits): merge
            rc, out = sh('git -C %s apply -3 %s && git -C %s reset -q' % (wt, os.path.abspath(a.patch), wt))
            meta['ran'].append({'cmd': 'git apply -3 (the base of the change is older than /repo HEAD)', 'exit': rc})
        assert rc == 0, 'patch does not apply: ' + out
        rc1, o1 = sh('cd %s && PYTHONPATH=%s/python /venv/bin/python -m pytest -q -p no:cacheprovider python/tests 2>&1 | tail -1' % (wt, wt))
        meta['ran'].append({'cmd': 'pytest python/tests with the change', 'result': o1.strip()[-80:]})
        rc2, o2 = sh(dcmd)
        meta['ran'].append({'cmd': 'demo with the change', 'exit': rc2, 'tail': o2.strip()[-300:]})
        meta['confirmed'] = (rc0 == 0 and rc2 != 0 and '152 passed' in o1)
        env = dict(os.environ, FE_REPO=wt, FE_EVIDENCE=os.path.join(tempfile.gettempdir(), 'seeded_evidence'))
        if a.isolate:
            iso = tempfile.mkdtemp(prefix='seeded_iso_')
            sh('cp -a %s %s/lean' % (os.path.join(VERIF, 'lean'), iso))
            env.update(FE_LEAN=iso + '/lean', FE_BUILD=iso + '/build', FE_EVIDENCE=iso + '/evidence')
        os.makedirs(env['FE_EVIDENCE'], exist_ok=True)
        t = time.time()
        rc3, o3 = sh('cd %s && ./check %s --tier %s' % (VERIF, a.prop, a.tier), env=env, timeout=3600)
        lines = [l for l in o3.split('\n') if 'VIOLATION' in l or l.startswith(a.prop + '/') or 'no longer checks' in l or 'correspondence failure' in l]
        meta['check'] = {'cmd': 'FE_REPO=<worktree with the change> ./check %s --tier %s' % (a.prop, a.tier), 'exit': rc3,
                         'seconds': round(time.time() - t, 1), 'output': lines[:8]}
        meta['detected'] = (rc3 == 1)
        # keep the failing inputs as regression corpus (run first by later checks)
        for mm in re.finditer(r'VIOLATION property=%s replay=(\S+)' % a.prop, o3):
            rp = os.path.join(VERIF, mm.group(1))
            if os.path.exists(rp):
                cd = os.path.join(VERIF, 'tools', 'corpus', a.prop)
                os.makedirs(cd, exist_ok=True)
                try:
                    obj = json.load(open(rp))
                    if isinstance(obj.get('input'), dict):
                        nm = (a.name or a.prop) + '-' + os.path.basename(rp)
                        json.dump({'from': 'seeded ' + (a.name or ''), 'signature': obj.get('signature'), 'input': obj['input']},
                                  open(os.path.join(cd, nm), 'w'))
                except Exception:
                    pass
        print(json.dumps(meta, indent=1))
    finally:
        sh('git -C /repo worktree remove --force %s' % wt)
        if a.isolate:
            shutil.rmtree(iso, ignore_errors=True)
        # translators rewrite lean/FeVerif/Generated/* from the tree they are pointed at: regenerate from /repo
        if not a.isolate:
            sh('cd %s && ./check %s --tier quick' % (VERIF, a.prop), env=dict(os.environ, FE_EVIDENCE=os.path.join(tempfile.gettempdir(), 'seeded_evidence')), timeout=3600)
    # file it
    base = os.path.join(VERIF, 'seeded')
    os.makedirs(base, exist_ok=True)
    name = a.name or '%s-%d' % (a.prop, 1 + len([d for d in os.listdir(base) if d.startswith(a.prop + '-')]))
    d = os.path.join(base, name)
    os.makedirs(d, exist_ok=True)
    for src, dst in ((a.patch, os.path.join(d, 'patch.diff')), (a.demo, os.path.join(d, os.path.basename(a.demo)))):
        if os.path.abspath(src) != os.path.abspath(dst):
            shutil.copy(src, dst)
    old = {}
    try:
        old = json.load(open(os.path.join(d, 'meta.json')))
    except (OSError, ValueError):
        pass
    for k in ('needs_to_manifest', 'breaks', 'description_from_seeder', 'note'):      # keep the seeder's description across re-evaluations
        if old.get(k) and not meta.get(k):
            meta[k] = old[k]
    with open(os.path.join(d, 'meta.json'), 'w') as f:
        json.dump(meta, f, indent=1)
    print('filed under', d)
    return 0 if meta.get('confirmed') and meta.get('detected') else 1


if __name__ == '__main__':
    sys.exit(main())
