#!/bin/bash
# Clean-tree sweep: every registered check with several seeds; prints one line per run. Usage: tools/sweep.sh "2 3 4" [tier]
cd "$(dirname "$0")/.."
( cd lean && lake build > /dev/null 2>&1 )
tier=${2:-quick}
for s in $1; do
  for c in $(python3 -c "import json; print(' '.join(x['property_id'] for x in json.load(open('MANIFEST.json'))['checks']))"); do
    t0=$(date +%s)
    VERIF_SEED=$s ./check $c --tier $tier > /tmp/sweep_$$_$c.txt 2>&1; rc=$?
    echo "seed=$s $c rc=$rc $(( $(date +%s) - t0 ))s $(grep -c '^VIOLATION' /tmp/sweep_$$_$c.txt) violations"
    [ $rc -ne 0 ] && grep -v -i "leap" /tmp/sweep_$$_$c.txt | tail -5
    rm -f /tmp/sweep_$$_$c.txt
  done
done
